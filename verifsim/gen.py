"""Random program generator by construct class (DESIGN 4.2)."""
from __future__ import annotations

import random

from .reference import declared_edges, path_set, reachable

MODE_PROFILES = [
    ('mixed', {'coro': 4, 'inline': 2, 'thread': 3, 'process': 1}),
    ('mixed', {'coro': 4, 'inline': 2, 'thread': 3, 'process': 1}),
    ('coro', {'coro': 1}),
    ('thread', {'thread': 1}),
    ('inline-ish', {'inline': 5, 'coro': 2, 'thread': 1}),
    ('held', {'coro': 5, 'thread': 4, 'process': 1}),
]


def _wchoice(rng, weights: dict):
    items = sorted(weights.items())
    tot = sum(w for _, w in items)
    x = rng.random() * tot
    for k, w in items:
        x -= w
        if x < 0:
            return k
    return items[-1][0]


def assign_modes(rng, nodes, profile=None):
    name, weights = profile or rng.choice(MODE_PROFILES)
    for i, n in enumerate(nodes):
        if i and rng.random() < 0.12:
            # node derived from a generic one with build_node(...); sometimes with dependencies_default
            n['generic'] = {'defaults': ({'k0': rng.choice([0, 5, 'c'])} if rng.random() < 0.6 else {})}
        m = _wchoice(rng, weights)
        n['mode'] = m
        if m == 'coro':
            n['gates'] = rng.choice([0, 1, 1, 1, 2]) if name != 'held' else rng.choice([1, 1, 2])
        else:
            n['gates'] = 0
        if m == 'thread' and rng.random() < 0.3:
            n['thread_tag'] = True
    return name


def gen_skeleton(rng: random.Random, n_min=2, n_max=10, p_noparam=0.1):
    """plain DAG skeleton: nodes n0..nk, n0 is the input node, last node is the output"""
    n = rng.randint(n_min, n_max)
    shape = rng.choice(['recent', 'uniform', 'wide', 'chain'])
    nodes = [{'name': 'n0', 'params': []}]
    for i in range(1, n):
        r = rng.random()
        if r < p_noparam and i < n - 1:
            k = 0
        elif r < 0.5:
            k = 1
        elif r < 0.85:
            k = 2
        else:
            k = 3
        k = min(k, i)
        if shape == 'chain' and rng.random() < 0.7:
            srcs = [i - 1][:k]
        elif shape == 'recent':
            pool = list(range(max(0, i - 3), i))
            srcs = rng.sample(pool, min(k, len(pool)))
        elif shape == 'wide':
            pool = list(range(0, max(1, i // 2 + 1)))
            srcs = rng.sample(pool, min(k, len(pool)))
        else:
            srcs = rng.sample(range(i), k)
        params = [[f'a{j}', ['In', f'n{s}']] for j, s in enumerate(sorted(srcs))]
        nodes.append({'name': f'n{i}', 'params': params})
    spec = {'nodes': nodes, 'input': 'n0', 'output': nodes[-1]['name']}
    return spec


def prune(spec):
    keep = reachable(spec)
    spec['nodes'] = [n for n in spec['nodes'] if n['name'] in keep]
    return spec


def decorate_values(rng, spec, p_falsy=0.08):
    for n in spec['nodes']:
        if n.get('value') is None and rng.random() < p_falsy and not n.get('rec'):
            n['value'] = rng.choice(['none', 'zero', 'empty', 'false', 'none'])
    return spec


RETRY_ATTEMPTS = [None, 1, 2, 3, 5]
RETRY_DELAY = [None, 0, 0.5, 2]
RETRY_EXC = [None, ['E1'], ['E2'], ['E1', 'E3']]


def decorate_faults(rng, spec, n_fault_nodes=None, allow_base=True, p_retry=0.5):
    """per-attempt failure plans + retry settings on a few nodes"""
    names = [n for n in spec['nodes']]
    if n_fault_nodes is None:
        n_fault_nodes = rng.choice([0, 1, 1, 2, 2, 3, 4])
    if rng.random() < 0.5:
        # bias towards nodes whose failure is seen from several scopes: switch deciders and nodes with >= 2 consumers
        ncons = {}
        for a, b in declared_edges(spec):
            ncons[a] = ncons.get(a, 0) + 1
        weighted = []
        for n in names:
            w = 1 + (4 if isinstance(n.get('value'), dict) else 0) + (2 if ncons.get(n['name'], 0) >= 2 else 0)
            weighted += [n] * w
        chosen = []
        while weighted and len(chosen) < min(n_fault_nodes, len(names)):
            c = rng.choice(weighted)
            if c not in chosen:
                chosen.append(c)
            weighted = [x for x in weighted if x is not c]
    else:
        chosen = rng.sample(names, min(n_fault_nodes, len(names)))
    for n in chosen:
        ln = rng.randint(1, 4)
        plan = []
        for _ in range(ln):
            r = rng.random()
            if r < 0.3:
                plan.append('E1')
            elif r < 0.5:
                plan.append('E2')
            elif r < 0.65:
                plan.append('E3')
            elif r < 0.70 and allow_base:
                plan.append('B')
            else:
                plan.append('ok')
        if all(p == 'ok' for p in plan):
            plan[0] = rng.choice(['E1', 'E2', 'E3'])
        if rng.random() < 0.3:
            # input-dependent failure: raises only for one half of the argument space
            plan = [p + '?' if p in ('E1', 'E2', 'E3') else p for p in plan]
            if rng.random() < 0.3:
                # ... and another exception class (or the same outcome path reached differently) for the other half
                plan = [p + rng.choice(['E1', 'E2', 'E3']) if p.endswith('?') and rng.random() < 0.6 else p for p in plan]
        n['plan'] = plan
    for n in names:
        if n in chosen or rng.random() < 0.1:
            if rng.random() < p_retry or n in chosen:
                n['retry'] = {
                    'attempts': rng.choice(RETRY_ATTEMPTS),
                    'delay': rng.choice(RETRY_DELAY),
                    'exceptions': rng.choice(RETRY_EXC),
                    'use_default': rng.random() < 0.35,
                }
    return spec


def gen_plain(rng, faults=True, n_max=10, profile=None, **kw):
    spec = gen_skeleton(rng, n_max=n_max)
    prune(spec)
    assign_modes(rng, spec['nodes'], profile)
    decorate_values(rng, spec)
    if faults:
        decorate_faults(rng, spec, **kw)
    spec['class'] = 'plain'
    return spec


def gen_rec_outside(rng, faults=True, n_max=10, **kw):
    """triage only (known finding K05): like gen_rec but a node outside the path may read an inner node"""
    return gen_rec(rng, faults=faults, n_max=n_max, _allow_outside=True, **kw)


def gen_rec(rng, faults=True, n_max=10, _allow_outside=False, **kw):
    """one recurrent subgraph over a plain DAG; no outside reader of an inner node unless it is
    downstream of the destination (carve-out outside_consumer_of_inner_rec_node)"""
    for _ in range(30):
        spec = gen_skeleton(rng, n_min=3, n_max=n_max, p_noparam=0.05)
        prune(spec)
        nodes = {n['name']: n for n in spec['nodes']}
        order = [n['name'] for n in spec['nodes']]
        edges = declared_edges(spec)
        consumers = {}
        for a, b in edges:
            consumers.setdefault(a, []).append(b)
        cands = [d for d in order if d != spec['input'] and consumers.get(d)]
        if not cands:
            continue
        dest = rng.choice(cands)
        preds = {}
        for a, b in edges:
            preds.setdefault(b, set()).add(a)
        anc = set()
        todo = [dest]
        while todo:
            x = todo.pop()
            for p in preds.get(x, ()):
                if p not in anc:
                    anc.add(p)
                    todo.append(p)
        if not anc:
            continue
        start = rng.choice(sorted(anc))
        P = path_set(spec, start, dest)
        # descendants of dest
        succ = {}
        for a, b in edges:
            succ.setdefault(a, set()).add(b)
        desc = set()
        todo = [dest]
        while todo:
            x = todo.pop()
            for s in succ.get(x, ()):
                if s not in desc:
                    desc.add(s)
                    todo.append(s)
        bad = False
        for a, b in edges:
            if a in P and a != dest and b not in P and b not in desc:
                bad = True
                break
        if bad != _allow_outside:
            continue
        mx = rng.choice([0, 1, 2, 2, 3])
        k = rng.choice([0, 1, 1, 2, 2, 3, mx, mx + 1])
        cons = rng.choice(sorted(consumers[dest]))
        for p in nodes[cons]['params']:
            if p[1][0] == 'In' and p[1][1] == dest:
                p[1] = ['Rec', start, dest, mx]
                break
        else:
            continue
        nodes[dest]['rec'] = {'start': start, 'k': k}
        nodes[start]['add_data'] = True
        assign_modes(rng, spec['nodes'])
        decorate_values(rng, spec, p_falsy=0.04)
        nodes[start].pop('value', None) if rng.random() < 0.7 else None
        if faults:
            decorate_faults(rng, spec, **kw)
            if rng.random() < 0.3:
                # a path node that fails for one half of its argument space: typically in a later iteration only
                nodes[rng.choice(sorted(P))]['plan'] = [rng.choice(['E1?', 'E2?', 'E3?'])]
            if rng.random() < 0.2:
                # a path node whose executions differ between iterations: a non-retryable failure (-> default) for one
                # half of its argument space, retryable failures up to the last allowed attempt for the other half
                # (seed C12d: attempt state surviving from one execution of a node to its next one in the same run)
                a = rng.choice([2, 3, 3])
                victim = nodes[rng.choice(sorted(P))]
                victim['plan'] = ['E3?E1'] + ['E1'] * (a - 2) + ['ok']
                victim['retry'] = {'attempts': a, 'delay': rng.choice(RETRY_DELAY), 'exceptions': ['E1'],
                                   'use_default': True}
        if rng.random() < 0.5:
            r = nodes[dest].setdefault('retry', {'attempts': None, 'delay': None, 'exceptions': None})
            r['use_default'] = True
        spec['class'] = 'rec'
        return spec
    return gen_plain(rng, faults=faults, n_max=n_max)


def _closure(rel, x):
    seen = set()
    todo = [x]
    while todo:
        y = todo.pop()
        for z in rel.get(y, ()):
            if z not in seen:
                seen.add(z)
                todo.append(z)
    return seen


def _outside_reader(edges, P, dest, desc):
    for a, b in edges:
        if a in P and a != dest and b not in P and b not in desc:
            return True
    return False


def strict_descendants(spec, node):
    """nodes that depend on `node` UNCONDITIONALLY: reachable without passing a candidate -> consumer or
    case -> consumer edge (a reader that is downstream of a recurrent destination only through such a lazy edge does not
    wait for the destination when another candidate / case is taken: known finding K05)"""
    lazy = set()
    for n in spec['nodes']:
        for _, m in n.get('params', ()):
            if m[0] == 'Switch':
                lazy.update((c, n['name']) for _, c in m[3])
            elif m[0] == 'OneOf':
                lazy.update((c, n['name']) for c in m[1])
    succ = {}
    for a, b in declared_edges(spec):
        if (a, b) not in lazy:
            succ.setdefault(a, set()).add(b)
    return _closure(succ, node)


def gen_rec_nested(rng, faults=True, n_max=10, **kw):
    """two nested recurrent subgraphs (inner path inside the outer path) over a plain DAG"""
    for _ in range(60):
        spec = gen_skeleton(rng, n_min=4, n_max=n_max, p_noparam=0.03)
        prune(spec)
        nodes = {n['name']: n for n in spec['nodes']}
        edges = declared_edges(spec)
        succ, pred = {}, {}
        for a, b in edges:
            succ.setdefault(a, set()).add(b)
            pred.setdefault(b, set()).add(a)
        order = [n['name'] for n in spec['nodes']]
        cands = [d for d in order if d != spec['input'] and succ.get(d)]
        if not cands:
            continue
        d1 = rng.choice(cands)
        anc1 = _closure(pred, d1)
        if len(anc1) < 2:
            continue
        s1 = rng.choice(sorted(anc1))
        P1 = path_set(spec, s1, d1)
        inner_d = [x for x in P1 if x not in (s1, d1) and succ.get(x)]
        if not inner_d:
            continue
        d2 = rng.choice(sorted(inner_d))
        inner_s = [x for x in _closure(pred, d2) if x in P1]
        if not inner_s:
            continue
        s2 = rng.choice(sorted(inner_s))
        if s2 == s1 and rng.random() < 0.5:
            continue
        P2 = path_set(spec, s2, d2)
        if _outside_reader(edges, P1, d1, _closure(succ, d1)) or _outside_reader(edges, P2, d2, _closure(succ, d2)):
            continue
        ok = True
        for (s_, d_) in ((s1, d1), (s2, d2)):
            cons = [c for c in sorted(succ[d_]) if any(p[1][0] == 'In' and p[1][1] == d_ for p in nodes[c]['params'])]
            if not cons:
                ok = False
                break
            c = rng.choice(cons)
            mx = rng.choice([1, 2, 2, 3])
            for p in nodes[c]['params']:
                if p[1][0] == 'In' and p[1][1] == d_:
                    p[1] = ['Rec', s_, d_, mx]
                    break
            nodes[d_]['rec'] = {'start': s_, 'k': rng.choice([0, 1, 1, 2, mx])}
            nodes[s_]['add_data'] = True
        if not ok:
            continue
        assign_modes(rng, spec['nodes'])
        if faults:
            decorate_faults(rng, spec, **kw)
        for d_ in (d1, d2):
            if rng.random() < 0.5:
                r = nodes[d_].setdefault('retry', {'attempts': None, 'delay': None, 'exceptions': None})
                r['use_default'] = True
        spec['class'] = 'rec_nested'
        return spec
    return gen_rec(rng, faults=faults, n_max=n_max)


def gen_oneof_rec(rng, faults=True, n_max=9, **kw):
    """a recurrent subgraph that lies completely inside the private sub-pipeline of one one-of candidate (or switch
    case): start, path, destination and all their readers are private nodes of that sub-pipeline"""
    base = rng.choice(['oneof', 'oneof', 'oneof_nested', 'switch', 'mix_main'])
    for _ in range(80):
        spec = gen_constructs(rng, dict(CFG[base], p_shared_prefix=0.0), faults=faults, n_max=n_max, **kw)
        main = main_scope_nodes(spec)
        private = {n['name'] for n in spec['nodes']} - main

        nodes_ = {n['name']: n for n in spec['nodes']}
        lazy_members = set()
        for n in spec['nodes']:
            for _, m in n.get('params', ()):
                if m[0] == 'Switch':
                    lazy_members.update(c for _, c in m[3])
                    lazy_members.add(m[2])
                elif m[0] == 'OneOf':
                    lazy_members.update(m[1])

        def ok(start, dest, P, consumers_of_P):
            if not (start in private and dest in private and P <= private and consumers_of_P <= private):
                return False
            # the path itself is plain: no construct consumer on it, no case / candidate / decider on it
            if P & lazy_members:
                return False
            return not any(m[0] in ('Switch', 'OneOf') for x in P for _, m in nodes_[x].get('params', ()))

        if overlay_rec(rng, spec, accept=ok):
            spec['class'] = 'oneof_rec'
            return spec
    return gen_constructs(rng, CFG['oneof'], faults=faults, n_max=n_max, **kw)


def overlay_rec(rng, spec, tries=40, accept=None):
    """turn one In edge dest->consumer of an existing program into a recurrent subgraph (start, dest);
    returns True on success.  No outside reader of an inner node unless downstream of dest."""
    nodes = {n['name']: n for n in spec['nodes']}
    edges = declared_edges(spec)
    succ, pred = {}, {}
    for a, b in edges:
        succ.setdefault(a, set()).add(b)
        pred.setdefault(b, set()).add(a)
    order = [n['name'] for n in spec['nodes']]
    for _ in range(tries):
        cands = [d for d in order if d != spec['input'] and not isinstance(nodes[d].get('value'), dict)
                 and any(p[1][0] == 'In' and p[1][1] == d for c in succ.get(d, ()) for p in nodes[c]['params'])]
        if not cands:
            return False
        dest = rng.choice(cands)
        anc = _closure(pred, dest)
        if not anc:
            continue
        start = rng.choice(sorted(anc))
        if isinstance(nodes[start].get('value'), dict):
            continue
        P = path_set(spec, start, dest)
        if _outside_reader(edges, P, dest, strict_descendants(spec, dest)):
            continue
        if accept is not None and not accept(start, dest, P, {b for a, b in edges if a in P}):
            continue
        cons = [c for c in sorted(succ[dest]) if any(p[1][0] == 'In' and p[1][1] == dest for p in nodes[c]['params'])]
        c = rng.choice(cons)
        mx = rng.choice([1, 2, 2, 3])
        for p in nodes[c]['params']:
            if p[1][0] == 'In' and p[1][1] == dest:
                p[1] = ['Rec', start, dest, mx]
                break
        nodes[dest]['rec'] = {'start': start, 'k': rng.choice([0, 1, 1, 2, mx, mx + 1])}
        nodes[dest].pop('value', None)
        nodes[start]['add_data'] = True
        if rng.random() < 0.3:
            # a path node that fails for one half of its argument space: typically in a later iteration only
            victim = nodes[rng.choice(sorted(P))]
            victim['plan'] = [rng.choice(['E1?', 'E2?', 'E3?'])]
        if rng.random() < 0.3:
            # the consumer of the destination also reads an inner node of the path
            inner = [x for x in sorted(P) if x != dest and x not in _used(nodes[c]['params'])]
            if inner:
                nodes[c]['params'].append([f'a{len(nodes[c]["params"]) + 7}', ['In', rng.choice(inner)]])
                if rng.random() < 0.6:
                    # ... and the start node fails in a later iteration: the inner node is then never executed again
                    nodes[start]['plan'] = [rng.choice(['E1?', 'E2?', 'E3?'])]
                    nodes[start].pop('retry', None)
        if rng.random() < 0.5:
            r = nodes[dest].setdefault('retry', {'attempts': None, 'delay': None, 'exceptions': None})
            r['use_default'] = True
        return True
    return False


def main_scope_nodes(spec):
    """nodes that belong to the eagerly executed main pipeline: they reach the output without passing a
    case -> consumer or candidate -> consumer edge"""
    lazy_edges = set()
    for n in spec['nodes']:
        for _, m in n.get('params', ()):
            if m[0] == 'Switch':
                lazy_edges.update((c, n['name']) for _, c in m[3])
            elif m[0] == 'OneOf':
                lazy_edges.update((c, n['name']) for c in m[1])
    pred = {}
    for a, b in declared_edges(spec):
        if (a, b) not in lazy_edges:
            pred.setdefault(b, set()).add(a)
    return _closure(pred, spec['output']) | {spec['output']}


def gen_rec_inner(rng, faults=True, n_max=9, **kw):
    """a recurrent subgraph whose path contains switches / one-ofs, while every reader of a path node (and of the
    destination) outside the path belongs to the main pipeline"""
    base = rng.choice(['switch', 'oneof', 'mix_main', 'switch_oneof'])
    for _ in range(60):
        spec = gen_constructs(rng, CFG[base], faults=faults, n_max=n_max, **kw)
        if not overlay_rec(rng, spec):
            continue
        (dest, (start, _mx)), = list(_rec_decls(spec).items())[:1]
        P = path_set(spec, start, dest)
        main = main_scope_nodes(spec)
        if dest not in main or start not in main:
            continue
        if any(a in P and b not in P and b not in main for a, b in declared_edges(spec)):
            continue
        nodes = {n['name']: n for n in spec['nodes']}
        inner = any(m[0] in ('Switch', 'OneOf') for x in P for _, m in nodes[x].get('params', ()))
        if not inner:
            continue
        spec['class'] = 'rec_inner'
        return spec
    return gen_rec(rng, faults=faults, n_max=n_max)


def _rec_decls(spec):
    out = {}
    for n in spec['nodes']:
        for _, m in n.get('params', ()):
            if m[0] == 'Rec':
                out[m[2]] = (m[1], m[3])
    return out


def gen_rec_mixed(rng, faults=True, n_max=9, **kw):
    """a recurrent subgraph laid over a program with switches / one-ofs (inside, around or beside the path)"""
    base = rng.choice(['switch', 'oneof', 'switch_shared', 'mix_main'])
    for _ in range(20):
        spec = gen_constructs(rng, CFG[base], faults=faults, n_max=n_max, **kw)
        if overlay_rec(rng, spec):
            spec['class'] = 'rec_mixed'
            return spec
    return gen_rec(rng, faults=faults, n_max=n_max)


def gen_rec_switch(rng, faults=True, n_max=9, **kw):
    """a switch INSIDE a recurrent path whose decider is re-executed in every iteration (and may return another
    label, or one without a case, in a later iteration) while its case nodes are constants outside the path: they
    depend on the input node only, so the part of known finding K04 that needs a case / candidate sub-pipeline on
    the path (re-execution of non-selected branches) cannot arise.  Shape of seeds C09d / C11c."""
    b = Builder(rng)
    n0 = b.new([])
    ncase = rng.choice([2, 2, 3])
    cases = []
    for i in range(ncase):
        c = b.new(b.in_params([n0]))
        if rng.random() < 0.3:
            c2 = b.new(b.in_params([c]))
            c = c2
        cases.append(c)
    start = b.new(b.in_params([n0]), add_data=True)
    up = start
    if rng.random() < 0.4:
        up = b.new(b.in_params([start]))
    labels = [f'L{i}' for i in range(ncase)]
    table = [[lb, c] for lb, c in zip(labels, cases)]
    dl = list(labels)
    if rng.random() < 0.3:
        dl.append(rng.choice(['UNK', None, 0, '']))
    dec = b.new(b.in_params([up]), value={'labels': dl})
    cons_params = [['a0', ['Switch', 'sw1' if rng.random() < 0.7 else None, dec, table]]]
    if rng.random() < 0.4:
        cons_params.append(['a1', ['In', up]])
    cons = b.new(cons_params)
    dest_src = cons
    if rng.random() < 0.3:
        dest_src = b.new(b.in_params([cons]))
    mx = rng.choice([1, 2, 3, 4])
    dest = b.new(b.in_params([dest_src]), rec={'start': start, 'k': rng.choice([0, 1, 1, 2, 2, 3, mx, mx + 1])})
    outp = [['a0', ['Rec', start, dest, mx]]]
    if rng.random() < 0.3:
        outp.append(['a1', ['In', n0]])
    out = b.new(outp)
    spec = {'nodes': b.nodes, 'input': n0, 'output': out}
    assign_modes(rng, spec['nodes'])
    if faults and rng.random() < 0.5:
        nodes = {n['name']: n for n in spec['nodes']}
        victim = nodes[rng.choice([start, up, dec, cons, dest_src] + cases)]
        victim['plan'] = [rng.choice(['E1?', 'E2?', 'E3?', 'E1', 'E1?E3'])] + rng.choice([[], ['ok'], ['E1', 'ok']])
        if rng.random() < 0.5:
            victim['retry'] = {'attempts': rng.choice(RETRY_ATTEMPTS), 'delay': rng.choice(RETRY_DELAY),
                               'exceptions': rng.choice(RETRY_EXC), 'use_default': rng.random() < 0.35}
    if rng.random() < 0.5:
        nodes = {n['name']: n for n in spec['nodes']}
        r = nodes[dest].setdefault('retry', {'attempts': None, 'delay': None, 'exceptions': None})
        r['use_default'] = True
    spec['class'] = 'rec_switch'
    return spec


def gen_rec_oneofc(rng, faults=True, n_max=9, **kw):
    """a one-of ON a recurrent path whose candidates are constants outside the path (they depend on the input node
    only, some of them failing): the consumer of the one-of is re-executed in every iteration, the candidates are not.
    Counterpart of rec_switch for InputOneOf; clean on the tree with F28 and claimed."""
    b = Builder(rng)
    n0 = b.new([])
    ncand = rng.choice([2, 2, 3])
    cands = []
    for i in range(ncand):
        c = b.new(b.in_params([n0]))
        if rng.random() < 0.3:
            c = b.new(b.in_params([c]))
        cands.append(c)
    start = b.new(b.in_params([n0]), add_data=True)
    up = start
    if rng.random() < 0.4:
        up = b.new(b.in_params([start]))
    cons = b.new([['a0', ['OneOf', cands]], ['a1', ['In', up]]])
    dest_src = cons
    if rng.random() < 0.3:
        dest_src = b.new(b.in_params([cons]))
    mx = rng.choice([1, 2, 3, 4])
    dest = b.new(b.in_params([dest_src]), rec={'start': start, 'k': rng.choice([0, 1, 1, 2, 2, 3, mx, mx + 1])})
    out = b.new([['a0', ['Rec', start, dest, mx]]])
    spec = {'nodes': b.nodes, 'input': n0, 'output': out}
    assign_modes(rng, spec['nodes'])
    nodes = {n['name']: n for n in spec['nodes']}
    if faults:
        for c in cands[:rng.choice([0, 1, 1, 2, ncand])]:
            nodes[c]['plan'] = [rng.choice(['E1', 'E2', 'E3'])] * rng.choice([1, 1, 2])
            if rng.random() < 0.3:
                nodes[c]['retry'] = {'attempts': rng.choice([1, 2, 3]), 'delay': rng.choice(RETRY_DELAY),
                                     'exceptions': rng.choice(RETRY_EXC), 'use_default': False}
    if rng.random() < 0.5:
        r = nodes[dest].setdefault('retry', {'attempts': None, 'delay': None, 'exceptions': None})
        r['use_default'] = True
    spec['class'] = 'rec_oneofc'
    return spec


_CORPUS = None


def load_corpus():
    """program shapes of the witnesses of repaired defects (known_findings/fixed_*.json): bug-adjacent shapes"""
    global _CORPUS
    if _CORPUS is None:
        import glob
        import json
        import os
        here = os.path.dirname(os.path.dirname(os.path.abspath(__file__)))
        _CORPUS = []
        for f in sorted(glob.glob(os.path.join(here, 'known_findings', 'fixed_*.json'))):
            try:
                spec = json.load(open(f))['case'].get('spec')
            except Exception:  # noqa: BLE001
                continue
            if spec and spec.get('nodes') and len(spec['nodes']) >= 2:
                kinds = {m[0] for n in spec['nodes'] for _, m in n.get('params', ())}
                if 'Rec' in kinds and kinds & {'OneOf', 'Switch'}:
                    continue        # recurrent subgraph next to / inside lazy constructs: known findings K04, K06
                _CORPUS.append(spec)
    return _CORPUS


def gen_corpus(rng, faults=True, n_max=10, **kw):
    """a witness shape of a repaired defect with fresh modes, suspension points, values, labels and fault plans"""
    import copy
    corpus = load_corpus()
    if not corpus:
        return gen_plain(rng, faults=faults)
    spec = copy.deepcopy(rng.choice(corpus))
    nodes = spec['nodes']
    keep_plans = rng.random() < 0.5
    for n in nodes:
        n.pop('generic', None)
        if not keep_plans:
            n.pop('plan', None)
            n.pop('retry', None)
        if n.get('value') in ('none', 'zero', 'empty', 'false') and rng.random() < 0.5:
            n.pop('value')
    assign_modes(rng, nodes)
    for n in nodes:
        v = n.get('value')
        if isinstance(v, dict) and rng.random() < 0.4:
            labs = list(v['labels'])
            if rng.random() < 0.5 and len(labs) > 1:
                labs.pop(rng.randrange(len(labs)))
            else:
                labs.append(rng.choice(['UNK', None, 0, 'L0', 'L1']))
            n['value'] = {'labels': labs}
    decorate_values(rng, spec, p_falsy=0.08)
    if faults:
        allow_base = not any(m[0] == 'OneOf' for n in nodes for _, m in n.get('params', ()))
        decorate_faults(rng, spec, n_fault_nodes=rng.choice([0, 1, 1, 2]), allow_base=allow_base)
    spec['class'] = 'corpus'
    return spec


def gen_input(rng):
    keys = rng.sample(['x', 'y', 'z'], rng.randint(1, 3))
    return {k: rng.choice([0, 1, 2, 3, 7, None, '', 'a', 'bc', -1]) for k in sorted(keys)}


GENERATORS = {'plain': gen_plain, 'rec': gen_rec, 'rec_nested': gen_rec_nested, 'rec_outside': gen_rec_outside}


# ---------------------------------------------------------------------------------------------
# carve-outs: structural predicates over the program spec, each tied to one known finding
# ---------------------------------------------------------------------------------------------
def _preds(spec):
    preds = {}
    for a, b in declared_edges(spec):
        preds.setdefault(b, set()).add(a)
    return preds


def ancestors(spec, name, preds=None):
    preds = preds or _preds(spec)
    seen = set()
    todo = [name]
    while todo:
        x = todo.pop()
        for p in preds.get(x, ()):
            if p not in seen:
                seen.add(p)
                todo.append(p)
    return seen


def _can_fail(node):
    return any(o != 'ok' for o in (node.get('plan') or ()))  # 'E1?' counts: it can fail


def carve_chained_oneof_with_fallback(spec):
    """known finding oneof-chained: a one-of candidate whose sub-pipeline contains the consumer of another
    one-of that can have a losing candidate followed by a winner"""
    nodes = {n['name']: n for n in spec['nodes']}
    preds = _preds(spec)
    oneofs = [(n['name'], m[1]) for n in spec['nodes'] for _, m in n.get('params', ()) if m[0] == 'OneOf']
    fallible = set()
    for cons, cands in oneofs:
        for c in cands[:-1]:
            sub = ancestors(spec, c, preds) | {c}
            if any(_can_fail(nodes[x]) for x in sub):
                fallible.add(cons)
    if not fallible:
        return False
    for cons, cands in oneofs:
        for c in cands:
            sub = ancestors(spec, c, preds) | {c}
            if sub & (fallible - {cons}):
                return True
    return False


# chained_oneof_with_fallback was the carve-out of former finding K02; the defect is repaired (F16), the predicate
# is kept for triage only and no longer excludes anything
CARVE_OUTS = {}


def excluded(spec):
    import os
    skip = (os.environ.get('VERIF_NO_CARVE') or '').split(',')   # triage only; never set by registered commands
    for name, pred in CARVE_OUTS.items():
        if name in skip or 'all' in skip:
            continue
        if pred(spec):
            return name
    return None


def gen_program(rng, classes, **kw):
    c = rng.choice(classes)
    for _ in range(50):
        spec = GENERATORS[c](rng, **kw)
        if excluded(spec) is None:
            return spec
    return gen_plain(rng, **{k: v for k, v in kw.items() if k in ('faults', 'n_max')})


# ---------------------------------------------------------------------------------------------
# switch / one-of classes (constructive builder)
# ---------------------------------------------------------------------------------------------
class Builder:
    def __init__(self, rng):
        self.rng = rng
        self.nodes = []
        self.public = []      # nodes any later node may consume with a plain Input
        self.nsw = 0

    def new(self, params, public=True, **attrs):
        name = f'n{len(self.nodes)}'
        node = {'name': name, 'params': params}
        node.update(attrs)
        self.nodes.append(node)
        if public:
            self.public.append(name)
        return name

    def pick(self, k, exclude=()):
        pool = [p for p in self.public if p not in exclude]
        k = min(k, len(pool))
        if k <= 0:
            return []
        # bias to recent nodes
        if self.rng.random() < 0.5:
            pool = pool[-4:]
            k = min(k, len(pool))
        return self.rng.sample(pool, k)

    def in_params(self, srcs, start=0):
        return [[f'a{start + j}', ['In', s]] for j, s in enumerate(srcs)]


def _private_chain(b, rng, depth, cfg, level, shared=()):
    """fresh private sub-pipeline of `depth` nodes; returns the name of its top node.

    Not only chains: a node may have two private parents (so that several private nodes of one case /
    candidate are in flight at once) and may read `shared` nodes (private to the construct but common to
    several of its cases / candidates) besides public nodes."""
    priv = []
    consumed = set()
    for i in range(depth):
        last = i == depth - 1
        srcs = []
        if priv:
            free = [p for p in priv if p not in consumed]
            if last:
                srcs = free[:3] if free else [priv[-1]]
            else:
                # branch (new leaf) or extend
                if rng.random() < 0.35:
                    srcs = []
                else:
                    srcs = rng.sample(priv, min(len(priv), rng.choice([1, 1, 2])))
        if shared and rng.random() < (0.6 if not srcs else 0.25):
            srcs.append(rng.choice(list(shared)))
        if getattr(b, 'deciders', None) and rng.random() < cfg.get('p_read_decider', 0.0):
            # a candidate / case sub-pipeline that reads the node deciding a switch elsewhere
            srcs.append(rng.choice(b.deciders))
        if not srcs or rng.random() < 0.3:
            srcs += b.pick(1, exclude=set(srcs))
        if not srcs and b.public:
            srcs = [b.public[0]]
        srcs = list(dict.fromkeys(srcs))
        consumed.update(x for x in srcs if x in priv)
        params = b.in_params(srcs)
        if priv and level < cfg.get('max_nest', 1) and len(b.nodes) < cfg.get('max_nodes', 45) \
                and rng.random() < cfg.get('p_nest', 0.0):
            params = _add_construct(b, rng, params, cfg, level + 1)
        priv.append(b.new(params, public=False))
    return priv[-1]


def _used(params):
    used = set()
    for _, m in params:
        if m[0] == 'In':
            used.add(m[1])
        elif m[0] == 'Switch':
            used.add(m[2])
            used.update(c for _, c in m[3])
        elif m[0] == 'OneOf':
            used.update(m[1])
        elif m[0] == 'Rec':
            used.add(m[2])
    return used


def _add_construct(b, rng, params, cfg, level):
    kind = rng.choice(cfg['constructs'])
    if cfg.get('nest_same_kind') and level > 0 and getattr(b, 'kind_stack', None):
        kind = b.kind_stack[-1]
    if not hasattr(b, 'kind_stack'):
        b.kind_stack = []
    b.kind_stack.append(kind)
    try:
        return _add_construct_kind(b, rng, params, cfg, level, kind)
    finally:
        b.kind_stack.pop()


def _add_construct_kind(b, rng, params, cfg, level, kind):
    used = _used(params)
    kw = f'a{len(params)}'
    shared = cfg.get('shared', False)
    shared_priv = []
    if rng.random() < cfg.get('p_shared_prefix', 0.35):
        # a node private to this construct but common to several of its cases / candidates
        shared_priv.append(_private_chain(b, rng, rng.choice([1, 1, 2]), cfg, level))
        if kind == 'oneof' and getattr(b, 'faults', False) and rng.random() < 0.5:
            # a failing node shared by several candidates of one one-of
            b.nodes[-1]['plan'] = [rng.choice(['E1', 'E2', 'E3'])]
    if kind == 'switch':
        ncases = rng.choice([1, 2, 2, 3])
        dsrc = b.pick(rng.choice([1, 1, 2]))
        cases = []
        labels = []
        for ci in range(ncases):
            lab = f'L{ci}'
            if shared and rng.random() < 0.5:
                c = b.pick(1, exclude=used | {x for _, x in cases})
                if c:
                    cases.append([lab, c[0]])
                    labels.append(lab)
                    continue
            top = _private_chain(b, rng, rng.choice(cfg.get('case_depths', [1, 1, 2, 3])), cfg, level, shared_priv)
            if shared and rng.random() < 0.5:
                b.public.append(top)
            cases.append([lab, top])
            labels.append(lab)
        table = list(labels)
        if cfg.get('unknown_label') and rng.random() < 0.3:
            # a label without a case: a foreign string, or what a careless decider returns (None, 0, '')
            table.append(rng.choice(['UNK', 'UNK', None, None, 0, '']))
        d = b.new(b.in_params(dsrc), public=(shared or cfg.get('public_deciders')) and rng.random() < 0.6,
                  value={'labels': table})
        if d in b.public:
            if not hasattr(b, 'deciders'):
                b.deciders = []
            b.deciders.append(d)
        b.nsw += 1
        name = f'sw{b.nsw}' if rng.random() < 0.8 else None
        params = params + [[kw, ['Switch', name, d, cases]]]
    else:
        ncand = rng.choice([1, 2, 2, 3])
        cands = []
        for ci in range(ncand):
            if shared and rng.random() < 0.4:
                c = b.pick(1, exclude=used | set(cands) | {'n0'})   # the input node itself is never a candidate
                if c:
                    cands.append(c[0])
                    continue
            top = _private_chain(b, rng, rng.choice(cfg.get('cand_depths', [1, 2, 2, 3, 4])), cfg, level, shared_priv)
            if shared and rng.random() < 0.4:
                b.public.append(top)
            cands.append(top)
        params = params + [[kw, ['OneOf', cands]]]
    return params


def gen_constructs(rng, cfg, faults=True, n_max=9, **kw):
    b = Builder(rng)
    b.faults = faults
    b.new([])
    n_main = rng.randint(2, max(2, n_max - 3))
    if cfg.get('force_small') or rng.random() < 0.4:
        # small programs: the interplay of two constructs is denser when little else is going on
        n_main = rng.randint(2, 3)
        cfg = dict(cfg, p_construct=cfg.get('p_construct_small', 0.8))
    placed = 0
    for i in range(n_main):
        last = i == n_main - 1
        k = rng.choice([1, 1, 2, 2, 3]) if i else 1
        params = b.in_params(b.pick(k))
        want = rng.random() < cfg.get('p_construct', 0.45) or (last and placed == 0)
        if want and len(b.nodes) < 18:
            params = _add_construct(b, rng, params, cfg, 0)
            placed += 1
            if rng.random() < 0.2 and len(b.nodes) < 14:
                params = _add_construct(b, rng, params, cfg, 0)
        b.new(params)
    spec = {'nodes': b.nodes, 'input': 'n0', 'output': b.nodes[-1]['name']}
    prune(spec)
    assign_modes(rng, spec['nodes'])
    for n in spec['nodes']:
        if isinstance(n.get('value'), dict):
            continue
    decorate_values(rng, spec, p_falsy=cfg.get('p_falsy', 0.06))
    if faults:
        # a BaseException raised inside a one-of candidate is neither a 'failure to contain' nor documented;
        # the claimed class keeps BaseExceptions out of programs with one-of (DESIGN 4.2)
        if 'oneof' in cfg['constructs']:
            kw = dict(kw, allow_base=False)
        decorate_faults(rng, spec, **kw)
    spec['class'] = cfg['name']
    return spec


def gen_hub(rng, faults=True, n_max=10, **kw):
    """cross-scope class: one 'hub' node (failing / slow / None-valued / plain) is needed in 2-3 different roles
    from different scopes at once - plain input of a main node, decider of a main-scope switch, input of one or two
    one-of candidates, input of a switch case, decider of a switch inside a candidate."""
    b = Builder(rng)
    b.faults = faults
    b.new([])
    for _ in range(rng.randint(1, 3)):
        b.new(b.in_params(b.pick(rng.choice([1, 1, 2]))))
    kind = rng.choice(['fail', 'fail', 'fail', 'slow', 'none', 'ok'])
    roles = rng.sample(['main_in', 'main_decider', 'cand_in', 'cand2_in', 'case_in', 'cand_decider', 'is_case_main',
                        'is_case_in_cand'], rng.choice([2, 2, 3]))
    decider = 'main_decider' in roles or 'cand_decider' in roles
    hub_attrs = {}
    if decider:
        hub_attrs['value'] = {'labels': ['L0', 'L1'] if rng.random() < 0.75 else ['L0', 'L1', rng.choice(['UNK', None, 0])]}
    elif kind == 'none':
        hub_attrs['value'] = rng.choice(['none', 'zero', 'empty'])
    hub = b.new(b.in_params(b.pick(rng.choice([1, 1, 2]))), **hub_attrs)
    hubnode = b.nodes[-1]
    hubnode['hub'] = kind
    if rng.random() < 0.4:
        b.new(b.in_params(b.pick(1, exclude={hub})))      # something else that can be slow

    def chain_from(srcs, n):
        top = b.new(b.in_params(srcs), public=False)
        for _ in range(n - 1):
            extra = b.pick(1, exclude={top}) if rng.random() < 0.3 else []
            top = b.new(b.in_params([top] + extra), public=False)
        return top

    def plain_chain(n):
        return chain_from(b.pick(1, exclude={hub}) or ['n0'], n)

    mains = []
    sw = 0
    for role in roles:
        other = b.pick(1, exclude={hub})
        if role == 'main_in':
            mains.append(b.new(b.in_params(other + [hub])))
        elif role == 'main_decider':
            sw += 1
            cases = [['L0', plain_chain(rng.choice([1, 2]))], ['L1', plain_chain(1)]]
            mains.append(b.new(b.in_params(other) + [['s', ['Switch', f'hsw{sw}', hub, cases]]]))
        elif role == 'cand_in':
            c1 = chain_from([hub], rng.choice([1, 2, 3]))
            c2 = plain_chain(rng.choice([1, 2]))
            cands = [c1, c2] if rng.random() < 0.8 else [c2, c1]
            mains.append(b.new(b.in_params(other) + [['o', ['OneOf', cands]]]))
        elif role == 'cand2_in':
            c1 = chain_from([hub], rng.choice([1, 2]))
            c2 = chain_from([hub] + (b.pick(1, exclude={hub}) if rng.random() < 0.5 else []), rng.choice([1, 2, 3]))
            c3 = plain_chain(1)
            mains.append(b.new(b.in_params(other) + [['o', ['OneOf', [c1, c2, c3]]]]))
        elif role == 'case_in':
            sw += 1
            d = b.new(b.in_params(b.pick(1, exclude={hub}) or ['n0']), public=False, value={'labels': ['L0', 'L1']})
            cases = [['L0', chain_from([hub], rng.choice([1, 2]))], ['L1', plain_chain(1)]]
            mains.append(b.new(b.in_params(other) + [['s', ['Switch', f'hsw{sw}', d, cases]]]))
        elif role == 'is_case_main':
            # the hub itself is a case of a main-scope switch
            sw += 1
            d = b.new(b.in_params(b.pick(1, exclude={hub}) or ['n0']), public=False, value={'labels': ['L0', 'L1']})
            cases = [['L0', hub], ['L1', plain_chain(1)]]
            mains.append(b.new(b.in_params(other) + [['s', ['Switch', f'hsw{sw}', d, cases]]]))
        elif role == 'is_case_in_cand':
            # ... or of a switch inside a one-of candidate
            sw += 1
            d = b.new(b.in_params(b.pick(1, exclude={hub}) or ['n0']), public=False, value={'labels': ['L0', 'L1']})
            cases = [['L0', hub], ['L1', plain_chain(1)]]
            x = b.new([['s', ['Switch', f'hsw{sw}', d, cases]]] + b.in_params(b.pick(1, exclude={hub})), public=False)
            c1 = chain_from([x], rng.choice([1, 2])) if rng.random() < 0.5 else x
            c2 = plain_chain(1)
            mains.append(b.new(b.in_params(other) + [['o', ['OneOf', [c1, c2] if rng.random() < 0.7 else [c2, c1]]]]))
        elif role == 'cand_decider':
            sw += 1
            cases = [['L0', plain_chain(1)], ['L1', plain_chain(rng.choice([1, 2]))]]
            x = b.new([['s', ['Switch', f'hsw{sw}', hub, cases]]] + b.in_params(b.pick(1, exclude={hub})), public=False)
            c1 = chain_from([x], rng.choice([1, 2])) if rng.random() < 0.5 else x
            c2 = plain_chain(1)
            mains.append(b.new(b.in_params(other) + [['o', ['OneOf', [c1, c2]]]]))
    out_params = b.in_params(mains[:3])
    b.new(out_params)
    spec = {'nodes': b.nodes, 'input': 'n0', 'output': b.nodes[-1]['name']}
    prune(spec)
    assign_modes(rng, spec['nodes'])
    if kind == 'slow':
        hubnode['mode'] = 'coro'
        hubnode['gates'] = 2
    if faults and kind == 'fail':
        hubnode['plan'] = [rng.choice(['E1', 'E2', 'E3'])] * 6
        if rng.random() < 0.4:
            hubnode['retry'] = {'attempts': rng.choice([2, 3]), 'delay': rng.choice([None, 0, 0.5]),
                                'exceptions': None, 'use_default': False}
    if faults and rng.random() < 0.5:
        others = [n for n in spec['nodes'] if n is not hubnode and n['name'] != 'n0']
        if others:
            o = rng.choice(others)
            o['plan'] = [rng.choice(['E1', 'E2', 'E3'])]
    hubnode.pop('hub', None)
    spec['class'] = 'hub'
    return spec


GENERATORS['hub'] = gen_hub
GENERATORS['corpus'] = gen_corpus
GENERATORS['rec_mixed'] = gen_rec_mixed
GENERATORS['rec_switch'] = gen_rec_switch
GENERATORS['rec_oneofc'] = gen_rec_oneofc
GENERATORS['rec_inner'] = gen_rec_inner
GENERATORS['oneof_rec'] = gen_oneof_rec

CFG = {
    'switch': {'name': 'switch', 'constructs': ['switch'], 'shared': False, 'p_nest': 0.25, 'max_nest': 2},
    'switch_unk': {'name': 'switch_unk', 'constructs': ['switch'], 'shared': False, 'p_nest': 0.2, 'max_nest': 1,
                   'unknown_label': True},
    'switch_shared': {'name': 'switch_shared', 'constructs': ['switch'], 'shared': True, 'p_nest': 0.2, 'max_nest': 1,
                      'unknown_label': True},
    'oneof': {'name': 'oneof', 'constructs': ['oneof'], 'shared': False, 'p_nest': 0.0},
    'oneof_nested': {'name': 'oneof_nested', 'constructs': ['oneof'], 'shared': False, 'p_nest': 0.3, 'max_nest': 2},
    'oneof_shared': {'name': 'oneof_shared', 'constructs': ['oneof'], 'shared': True, 'p_nest': 0.2, 'max_nest': 1},
    'mix_main': {'name': 'mix_main', 'constructs': ['switch', 'oneof'], 'shared': False, 'p_nest': 0.25, 'max_nest': 2,
                 'nest_same_kind': True, 'public_deciders': True, 'unknown_label': True, 'p_read_decider': 0.25},
    # deep nesting: a construct inside the sub-pipeline of a case / candidate of a construct inside ... (3 levels),
    # with labels without a case and failures at the innermost level
    'nest3': {'name': 'nest3', 'constructs': ['switch', 'oneof'], 'shared': False, 'p_nest': 0.75, 'max_nest': 3,
              'public_deciders': True, 'p_read_decider': 0.1, 'unknown_label': True, 'force_small': True,
              'p_construct_small': 0.7, 'p_shared_prefix': 0.2, 'case_depths': [2, 3, 3], 'cand_depths': [2, 3, 3, 4]},
    'mix_shared': {'name': 'mix_shared', 'constructs': ['switch', 'oneof'], 'shared': True, 'p_nest': 0.25, 'max_nest': 2,
                   'public_deciders': True, 'p_read_decider': 0.15, 'unknown_label': True},
    'switch_oneof': {'name': 'switch_oneof', 'constructs': ['switch', 'oneof'], 'shared': False, 'p_nest': 0.3,
                     'max_nest': 2, 'public_deciders': True, 'p_read_decider': 0.2, 'unknown_label': True},
}
for _k, _cfg in CFG.items():
    GENERATORS[_k] = (lambda cfg: (lambda rng, **kw: gen_constructs(rng, cfg, **kw)))(_cfg)
