"""Deterministic asyncio event loop driven by a seeded scheduler.

CPython's Task / Future / Handle / TimerHandle / Condition / Event / sleep are used untouched.
Only the *driver* is replaced: the selector is gone, the clock is virtual, and every external
completion ("gate") arrives when the scheduler says so.  The ready queue stays FIFO (DESIGN 3.2).
"""
from __future__ import annotations

import asyncio
import heapq
import sys
import threading
from asyncio import events

QUIESCENT = 'quiescent'
STEPCAP = 'stepcap'
DONE = 'done'


class Gate:
    __slots__ = ('label', 'fut', 'gid', 'kind', 'outcome', 'run', 'node', 'prio', 'fired', 'action', 'abort')

    def __init__(self, label, fut, gid, kind, outcome, run, node):
        self.label = label
        self.fut = fut
        self.gid = gid
        self.kind = kind
        self.outcome = outcome  # None | ('ok', value) | ('exc', exception)
        self.run = run
        self.node = node
        self.prio = 0.0
        self.fired = False
        self.action = None
        self.abort = None


def _release(gate: Gate) -> None:
    fut = gate.fut
    if fut.done():
        return
    oc = gate.outcome
    if oc is None or oc[0] == 'ok':
        fut.set_result(None if oc is None else oc[1])
    else:
        fut.set_exception(oc[1])


class SimLoop(asyncio.BaseEventLoop):
    """Virtual-time loop. `drive()` replaces run_forever()."""

    def __init__(self, sim) -> None:
        super().__init__()
        self._sim = sim
        self._vtime = 0.0
        self._clock_resolution = 1e-9
        self.handles_run = 0
        self.ticks = 0
        self.exc_reports = []
        self.set_exception_handler(self._on_exception)

    # -- seams -----------------------------------------------------------------------------
    def time(self) -> float:
        return self._vtime

    def _process_events(self, event_list) -> None:  # pragma: no cover - never used
        pass

    def _write_to_self(self) -> None:
        pass

    def _on_exception(self, loop, context) -> None:
        # side channel only; never part of the event log (GC timing dependent)
        self.exc_reports.append(str(context.get('message')))

    def run_in_executor(self, executor, func, *args):
        return self._sim.submit_executor_job(executor, func, args)

    def call_soon_threadsafe(self, callback, *args, context=None):
        return self.call_soon(callback, *args, context=context)

    # -- timers ----------------------------------------------------------------------------
    def call_at(self, when, callback, *args, context=None):
        # side channel for the C12 delay oracle: the duration the engine's retry loop asked asyncio.sleep for
        # (frames: call_at <- call_later <- sleep <- __execute_node).  Not part of the event log.
        f = sys._getframe(1)
        for _ in range(4):
            if f is None:
                break
            if f.f_code.co_name == '__execute_node':
                self._sim.retry_timers.append((self._sim.cur_run(), f.f_locals.get('node_id'), when - self._vtime))
                break
            f = f.f_back
        return super().call_at(when, callback, *args, context=context)

    def _drop_cancelled_timers(self) -> None:
        sched = self._scheduled
        while sched and sched[0]._cancelled:
            self._timer_cancelled_count -= 1
            handle = heapq.heappop(sched)
            handle._scheduled = False

    def next_timer(self):
        self._drop_cancelled_timers()
        if self._scheduled:
            return self._scheduled[0]._when
        return None

    def collect_due_timers(self) -> int:
        n = 0
        end_time = self._vtime + self._clock_resolution
        sched = self._scheduled
        while sched:
            handle = sched[0]
            if handle._when >= end_time:
                break
            handle = heapq.heappop(sched)
            handle._scheduled = False
            if handle._cancelled:
                self._timer_cancelled_count -= 1
                continue
            self._ready.append(handle)
            n += 1
        return n

    def tick(self) -> bool:
        when = self.next_timer()
        if when is None:
            return False
        if when > self._vtime:
            self._vtime = when
        self.ticks += 1
        self.collect_due_timers()
        return True

    # -- driver ----------------------------------------------------------------------------
    def drive(self) -> str:
        sim = self._sim
        self._check_closed()
        self._thread_id = threading.get_ident()
        events._set_running_loop(self)
        try:
            while True:
                self._drop_cancelled_timers()
                self.collect_due_timers()
                sim.at_boundary()
                if not self._ready:
                    return QUIESCENT
                ntodo = len(self._ready)
                ready = self._ready
                for _ in range(ntodo):
                    sim.before_handle()
                    if not ready:
                        break
                    handle = ready.popleft()
                    if handle._cancelled:
                        continue
                    self.handles_run += 1
                    handle._run()
                    handle = None
                    st = sim.after_handle()
                    if st is not None:
                        return st
        finally:
            self._thread_id = None
            events._set_running_loop(None)

    def drain_and_close(self) -> None:
        """After a verdict: cancel everything, let cancellations unwind, close quietly."""
        self._thread_id = threading.get_ident()
        events._set_running_loop(self)
        try:
            for _ in range(50):
                pending = [t for t in asyncio.all_tasks(self) if not t.done()]
                if not pending and not self._ready:
                    break
                for t in pending:
                    t.cancel()
                n = 0
                while self._ready and n < 100000:
                    handle = self._ready.popleft()
                    n += 1
                    if not handle._cancelled:
                        handle._run()
                self._sim.kill_gates()
        finally:
            self._thread_id = None
            events._set_running_loop(None)
        for t in asyncio.all_tasks(self):
            if t.done() and not t.cancelled():
                t.exception()  # mark retrieved
        self._ready.clear()
        self._scheduled.clear()
        self._closed = True
