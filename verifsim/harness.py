"""Execute one case (program, inputs, collaborators, faults) under one scheduler on the real engine."""
from __future__ import annotations

import copy
import random

from . import materialize as mat
from .sim import DONE, QUIESCENT, STEPCAP, Sim

ENGINE_ERRORS = None


def _engine_error_types():
    global ENGINE_ERRORS
    if ENGINE_ERRORS is None:
        from ml_pipeline_engine.dag import errors as E
        ENGINE_ERRORS = E
    return ENGINE_ERRORS


class Record:
    __slots__ = ('status', 'trace', 'outcomes', 'decisions', 'steps', 'ticks', 'vtime', 'leftover',
                 'after_done_handles', 'retry_timers', 'fault_hits', 'max_pending', 'out_of_order', 'digest',
                 'input_after', 'snap_before', 'snap_after', 'sched', 'done_seq', 'exc_reports',
                 'complete_results', 'results', 'gate_count', 'snaps', 'pending_nodes', 'probes', 'max_lag', 'pending_at_end')

    def __init__(self):
        for s in self.__slots__:
            setattr(self, s, None)


def outcome_of(task):
    """canonical outcome of a chart.run task"""
    if not task.done():
        return ('pending',)
    if task.cancelled():
        return ('cancelled',)
    ex = task.exception()
    if ex is not None:
        return ('raised', type(ex).__name__, mat.errtoken(ex))
    res = task.result()
    if res.error is not None:
        return ('error', type(res.error).__name__, mat.errtoken(res.error), mat.vrepr(res.value))
    return ('value', mat.vrepr(res.value))


def snapshot_chart(chart, classes):
    """deep, address-free snapshot of everything C07 calls 'the immutable description'"""
    dag = chart.entrypoint
    g = dag.graph

    def norm(d):
        return tuple(sorted((str(getattr(k, 'value', k)), repr(v)) for k, v in d.items()))

    nodes = tuple(sorted((n, norm(d)) for n, d in g.nodes(data=True)))
    edges = tuple(sorted((u, v, norm(d)) for u, v, d in g.edges(data=True)))
    nmap = tuple(sorted((k, v.__name__) for k, v in dag.node_map.items()))
    cls = tuple(sorted(
        (c.__name__, tuple(sorted((k, repr(v)) for k, v in vars(c).items()
                                  if not k.startswith('__') and not callable(v))))
        for c in classes.values()
    ))
    return (nodes, edges, nmap, cls, dag.input_node, dag.output_node,
            dag.is_process_pool_needed, dag.is_thread_pool_needed)


def make_chart(case, uuid_seed=0):
    from ml_pipeline_engine.chart import PipelineChart
    spec = case['spec']
    dag = mat.build_dag(spec, uuid_seed)
    ems = [mat.make_event_manager(cfg, i) for i, cfg in enumerate(case.get('em') or ())]
    store = mat.make_artifact_store(case['store']) if case.get('store') else None
    return PipelineChart('verif_model', dag, artifact_store=store, event_managers=ems)


def run_case(case: dict, scheduler, set_seed: int = 0, step_cap: int = 20000, keep_snaps=False) -> Record:
    """mode solo: one run.  sequence: runs one after another on one chart (or fresh charts).
    overlap: all runs started together on one loop."""
    probe = mat.probe_logging() if case.get('probe') else None
    if probe is None:
        mat.quiet_logging()
    mat.setup_registries(case.get('registry', 'both'))
    sim = Sim(scheduler, step_cap=step_cap, set_rng=random.Random(set_seed))
    rec = Record()
    runs = case['runs']
    mode = case.get('mode', 'solo')
    inputs = [copy.deepcopy(r['input']) for r in runs]
    classes = mat.get_classes(case['spec'])
    snaps = []
    try:
        cancel = case.get('cancel')
        if cancel:
            sim.cancel_plan = {int(k): list(v) for k, v in cancel.items()}
        if mode == 'sequence':
            chart = make_chart(case, case.get('uuid_seed', 0)) if case.get('reuse_chart', True) else None
            status = DONE
            for i, r in enumerate(runs):
                ch = chart if chart is not None else make_chart(case, case.get('uuid_seed', 0))
                if keep_snaps:
                    snaps.append(snapshot_chart(ch, classes))
                sim.start_run(lambda ch=ch, i=i: ch.run(pipeline_id=f'p{i}', input_kwargs=inputs[i]), run_id=i)
                status = sim.drive()
                if keep_snaps:
                    snaps.append(snapshot_chart(ch, classes))
                if status != DONE:
                    break
        else:
            if case.get('share_chart', True):
                chart = make_chart(case, case.get('uuid_seed', 0))
                charts = [chart] * len(runs)
            else:
                charts = [make_chart(case, case.get('uuid_seed', 0)) for _ in runs]
            if keep_snaps:
                snaps.append(snapshot_chart(charts[0], classes))
            stagger = case.get('stagger') or ()

            def starter(i):
                if i in stagger:
                    async def delayed():
                        # the start of this run is an external event like any other: the scheduler decides when
                        await sim.gate(f'start{i}', 'start')
                        return await charts[i].run(pipeline_id=f'p{i}', input_kwargs=inputs[i])
                    return delayed()
                return charts[i].run(pipeline_id=f'p{i}', input_kwargs=inputs[i])

            for i, r in enumerate(runs):
                sim.start_run(lambda i=i: starter(i), run_id=i)
            status = sim.drive()
            if keep_snaps:
                snaps.append(snapshot_chart(charts[0], classes))
        rec.status = status
        rec.trace = sim.trace
        rec.outcomes = [outcome_of(t) for t in sim.run_tasks]
        rec.results = [t.result() if t.done() and not t.cancelled() and t.exception() is None else None
                       for t in sim.run_tasks]
        rec.decisions = sim.decisions
        rec.steps = sim.loop.handles_run
        rec.ticks = sim.loop.ticks
        rec.vtime = sim.loop._vtime
        rec.leftover = sim.leftover_tasks() if status == DONE else []
        rec.pending_nodes = sorted({g.node for g in sim.pending_gates()}) if status != DONE else []
        rec.after_done_handles = sim.after_done_handles
        rec.retry_timers = list(sim.retry_timers)
        rec.fault_hits = sim.fault_hits
        rec.max_pending = sim.__dict__.get('max_pending', 0)
        rec.out_of_order = sim.out_of_order
        rec.gate_count = sim.gate_count
        rec.max_lag = sim.max_lag
        rec.pending_at_end = sim.pending_at_end
        rec.input_after = inputs
        rec.done_seq = sim.done_seq
        rec.exc_reports = sim.loop.exc_reports
        rec.complete_results = sim.__dict__.get('complete_results', {})
        rec.snaps = snaps
        rec.digest = sim.digest()
        rec.probes = probe.counts if probe is not None else None
    finally:
        sim.close()
        if probe is not None:
            mat.quiet_logging()
    return rec


__all__ = ['run_case', 'Record', 'DONE', 'QUIESCENT', 'STEPCAP', 'make_chart', 'outcome_of']
