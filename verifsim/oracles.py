"""Trace oracles.  Every oracle returns a list of Violation(props, clause, detail); a property's
check only reports violations tagged with its own id."""
from __future__ import annotations

from collections import defaultdict

from .harness import DONE, QUIESCENT, STEPCAP
from .materialize import vrepr

ARTEFACT_TYPES = {
    'CancelledError', 'KeyError', 'AttributeError', 'InvalidStateError', 'TypeError', 'IndexError',
    'RuntimeError', 'StopIteration', 'AssertionError', 'ValueError', 'NameError', 'LookupError',
    'RecursionError', 'NotImplementedError', 'NetworkXError', 'NetworkXNoPath', 'NodeNotFound',
}


class Violation:
    __slots__ = ('props', 'clause', 'detail', 'run', 'sched')

    def __init__(self, props, clause, detail='', run=0):
        self.props = set(props)
        self.clause = clause
        self.detail = detail
        self.run = run
        self.sched = None

    def __repr__(self):
        return f'V({sorted(self.props)} {self.clause}: {self.detail})'

    def as_dict(self):
        return {'props': sorted(self.props), 'clause': self.clause, 'detail': self.detail, 'run': self.run}


def features(spec):
    f = set()
    for n in spec['nodes']:
        for _, m in n.get('params', ()):
            f.add(m[0])
        if n.get('plan') or n.get('retry'):
            f.add('retry')
    return f


def construct_props(spec):
    f = features(spec)
    out = set()
    if 'Switch' in f:
        out.add('C09')
    if 'OneOf' in f:
        out.add('C10')
    if 'Rec' in f:
        out.add('C11')
    return out


class RunView:
    """events of one run, indexed"""

    def __init__(self, rec, run):
        self.run = run
        self.starts = []      # (seq, vtime, node, kd, idx, kwargs)
        self.raises = {}      # (node, kd, idx) -> (seq, vtime, outcome)
        self.ends = {}        # (node, kd, idx) -> (seq, vtime, value)
        self.defaults = []    # (seq, vtime, node, kd)
        self.events = []      # (seq, kind, node, payload)
        self.saves = []       # (seq, node, value, typename)
        self.run_done = None
        self.cancel_seq = None
        for ev in rec.trace:
            seq, vt, kind, r, node, payload = ev
            if r != run:
                continue
            if kind == 'body_start':
                self.starts.append((seq, vt, node, payload[0], payload[1], payload[2]))
            elif kind == 'body_raise':
                self.raises[(node, payload[0], payload[1])] = (seq, vt, payload[2])
            elif kind == 'body_end':
                self.ends[(node, payload[0], payload[1])] = (seq, vt, payload[2])
            elif kind == 'default_call':
                self.defaults.append((seq, vt, node, payload[0]))
            elif kind.startswith('ev_'):
                self.events.append((seq, kind[3:], node, payload))
            elif kind == 'save':
                self.saves.append((seq, node, payload[0], payload[1]))
            elif kind == 'run_done':
                self.run_done = seq
            elif kind == 'cancel':
                self.cancel_seq = seq


# -------------------------------------------------------------------------------------------
def o_termination(case, rec):
    if rec.status == DONE:
        return []
    pend = [i for i, o in enumerate(rec.outcomes) if o[0] == 'pending']
    if rec.status == QUIESCENT:
        return [Violation({'C02'}, 'deadlock',
                          f'loop idle, no gate/timer outstanding, runs {pend} still pending after '
                          f'{rec.steps} handles')]
    return [Violation({'C02'}, 'livelock', f'step cap hit after {rec.steps} handles, runs {pend} pending')]


def o_outcome(case, rec, ref, run=0, cancelled=False):
    """engine outcome vs reference outcome (C01 value part, C05 failure part)"""
    if rec.status != DONE:
        return []
    oc = rec.outcomes[run]
    out = ref.outcome
    cp = construct_props(case['spec'])
    vs = []
    if cancelled:
        return vs
    if oc[0] == 'cancelled':
        return [Violation({'C05', 'C01'}, 'cancelled_error_escapes',
                          'chart.run ended with CancelledError although nobody cancelled it', run)]
    if out.ok:
        want = vrepr(out.val)
        if oc[0] == 'value':
            if oc[1] != want:
                vs.append(Violation({'C01'} | cp, 'wrong_value', f'got {oc[1]} want {want}', run))
        elif oc[0] == 'error':
            vs.append(Violation({'C01', 'C05'} | cp, 'spurious_error',
                                f'reference yields {want}, engine reported {oc[1]} {oc[2]}', run))
        else:
            vs.append(Violation({'C01', 'C05'} | cp, 'spurious_raise',
                                f'reference yields {want}, chart.run raised {oc[1]} {oc[2]}', run))
        return vs
    causes = out.causes
    kinds = {c[0] for c in causes}
    toks = {(c[1], c[2], c[3]): c[4] for c in causes if c[0] == 'tok'}
    if oc[0] == 'value':
        vs.append(Violation({'C01', 'C05'} | cp, 'value_despite_failure',
                            f'engine returned {oc[1]}; reference fails with {sorted(causes, key=repr)}', run))
    elif oc[0] == 'error':
        tname, tok, val = oc[1], oc[2], oc[3]
        ok = False
        if tok is not None and tok[0] == 'tok':
            key = (tok[2], tok[3], tok[4])
            ok = tok[1] == run and key in toks and toks[key] != 'B'
        elif tname == 'OneOfDoesNotHaveResultError':
            ok = 'oneof' in kinds
        elif tname == 'RecurrentSubgraphDoesNotHaveResultError':
            ok = 'rec' in kinds
        elif 'nocase' in kinds and tname not in ARTEFACT_TYPES:
            ok = True
        if not ok:
            vs.append(Violation({'C05', 'C01'} | cp, 'unfaithful_error',
                                f'reported {tname} {tok}; acceptable root causes {sorted(causes, key=repr)}', run))
        if val != 'None':
            vs.append(Violation({'C05'}, 'error_with_value', f'error result carries value {val}', run))
    elif oc[0] == 'raised':
        tname, tok = oc[1], oc[2]
        ok = False
        if tok is not None and tok[0] == 'tok':
            key = (tok[2], tok[3], tok[4])
            ok = tok[1] == run and toks.get(key) == 'B'
        if not ok:
            vs.append(Violation({'C05', 'C01'} | cp, 'run_raised',
                                f'chart.run raised {tname} {tok}; acceptable {sorted(causes, key=repr)}', run))
    return vs


def o_calls(case, rec, ref, view: RunView, complete=True):
    """engine body invocations vs the reference's (C03, C04, C09-C12)"""
    spec = case['spec']
    cp = construct_props(spec)
    nodes = {n['name']: n for n in spec['nodes']}
    refms = ref.call_multiset()
    ref_by_node = defaultdict(set)
    for (n, kd, idx) in refms:
        ref_by_node[n].add(kd)
    seen = defaultdict(int)
    vs = []
    flagged = set()
    for seq, vt, node, kd, idx, kw in view.starts:
        key = (node, kd, idx)
        seen[key] += 1
        if node in flagged:
            continue
        if key in refms:
            if seen[key] > refms[key]:
                flagged.add(node)
                vs.append(Violation({'C04'} | cp, 'duplicate_execution',
                                    f'{node} invoked again with identical arguments (attempt index {idx})', view.run))
            continue
        flagged.add(node)
        if node not in ref.demanded:
            vs.append(Violation(cp or {'C04'}, 'undemanded_node_executed',
                                f'{node} executed but the dataflow semantics never demands it', view.run))
        elif kd not in ref_by_node[node]:
            bad = _classify_args(kw)
            marks = {m[0] for _, m in nodes[node].get('params', ())}
            props = {'C03'}
            if 'Switch' in marks:
                props.add('C09')
            if 'OneOf' in marks:
                props.add('C10')
            if 'Rec' in marks or nodes[node].get('add_data') or 'Rec' in features(spec):
                props.add('C11')
            vs.append(Violation(props, 'wrong_arguments' + bad,
                                f'{node} invoked with {dict(kw)}; reference digests {sorted(ref_by_node[node])}',
                                view.run))
        else:
            props = {'C04'}
            if nodes[node].get('plan') or nodes[node].get('retry'):
                props.add('C12')
            if 'Rec' in features(spec):
                props.add('C11')
            vs.append(Violation(props, 'too_many_executions',
                                f'{node} kd={kd} attempt index {idx} exceeds the reference count', view.run))
    if complete and ref.outcome.ok and rec.status == DONE and rec.outcomes[view.run][0] == 'value':
        for (n, kd, idx), c in sorted(refms.items()):
            if n in ref.must and seen.get((n, kd, idx), 0) < c and n not in flagged:
                flagged.add(n)
                props = {'C12'} if (nodes[n].get('plan') or nodes[n].get('retry')) else {'C04'}
                if 'Rec' in features(spec):
                    props.add('C11')
                vs.append(Violation(props, 'missing_execution',
                                    f'{n} kd={kd} attempt {idx} required by the semantics but never invoked',
                                    view.run))
    return vs


def _classify_args(kw):
    for k, v in kw:
        if v.startswith('<exc'):
            return ':exception_as_argument'
        if v.startswith('<Recurrent'):
            return ':recurrent_marker_as_argument'
    return ''


def o_retry(case, rec, ref, view: RunView):
    """C12: delay between attempts, default called with the body's kwargs, default multiset"""
    vs = []
    start_at = {}
    for seq, vt, node, kd, idx, kw in view.starts:
        start_at.setdefault((node, kd, idx), (seq, vt))
    for ex in ref.executions:
        n, kd = ex['node'], ex['kd']
        idxs = ex['idxs']
        for a, b in zip(idxs, idxs[1:]):
            ra = view.raises.get((n, kd, a))
            sb = start_at.get((n, kd, b))
            if ra is None or sb is None:
                continue
            gap = sb[1] - ra[1]
            if gap + 1e-9 < ex['delay']:
                vs.append(Violation({'C12'}, 'retry_too_early',
                                    f'{n}: attempt {b} started {gap}s after the failure, delay={ex["delay"]}', view.run))
            if sb[0] < ra[0]:
                vs.append(Violation({'C12', 'C04'}, 'attempts_overlap', f'{n}: attempt {b} started before {a} failed',
                                    view.run))
    refd = defaultdict(int)
    for n, kd in ref.defaults:
        refd[(n, kd)] += 1
    got = defaultdict(int)
    for seq, vt, n, kd in view.defaults:
        got[(n, kd)] += 1
        if got[(n, kd)] > refd.get((n, kd), 0):
            known = {k for (m, k) in refd if m == n}
            props = {'C12'}
            if 'Rec' in features(case['spec']):
                props.add('C11')
            vs.append(Violation(props, 'unexpected_default',
                                f'{n}.get_default called with kwargs digest {kd}; reference expects {sorted(known)}',
                                view.run))
    if ref.outcome.ok and rec.status == DONE and rec.outcomes[view.run][0] == 'value':
        for (n, kd), c in refd.items():
            if n in ref.must and got.get((n, kd), 0) < c:
                vs.append(Violation({'C12'}, 'missing_default', f'{n}.get_default({kd}) expected', view.run))
    return vs


def o_leftover(case, rec, nruns=1):
    """C13: nothing left behind after every run has ended"""
    vs = []
    if rec.status != DONE:
        return vs
    if rec.leftover:
        vs.append(Violation({'C13'}, 'leftover_task',
                            f'tasks still pending after the run ended and the loop went idle: {rec.leftover[:6]}'))
    bound = 400 + 40 * len(case['spec']['nodes'])
    if rec.after_done_handles > bound * max(1, nruns):
        vs.append(Violation({'C13'}, 'slow_drain', f'{rec.after_done_handles} handles after the run ended'))
    done_at = {}
    for ev in rec.trace:
        seq, vt, kind, r, node, payload = ev
        if kind == 'run_done':
            done_at[r] = seq
        elif r in done_at and (kind in ('body_start', 'default_call', 'save') or kind.startswith('ev_')):
            vs.append(Violation({'C13'}, 'late_activity', f'{kind} {node} of run {r} after that run had ended', r))
            break
    return vs


def general(case, rec, ref, run=0, cancelled=False):
    view = RunView(rec, run)
    vs = []
    vs += o_outcome(case, rec, ref, run, cancelled)
    vs += o_calls(case, rec, ref, view, complete=not cancelled)
    vs += o_retry(case, rec, ref, view)
    return vs, view
