"""Trace oracles.  Every oracle returns a list of Violation(props, clause, detail); a property's
check only reports violations tagged with its own id."""
from __future__ import annotations

import re
from collections import defaultdict

from .harness import DONE, QUIESCENT, STEPCAP
from .materialize import vrepr

ARTEFACT_TYPES = {
    'CancelledError', 'KeyError', 'AttributeError', 'InvalidStateError', 'TypeError', 'IndexError',
    'RuntimeError', 'StopIteration', 'AssertionError', 'ValueError', 'NameError', 'LookupError',
    'RecursionError', 'NotImplementedError', 'NetworkXError', 'NetworkXNoPath', 'NodeNotFound',
}


class Violation:
    __slots__ = ('props', 'clause', 'detail', 'run', 'sched')

    def __init__(self, props, clause, detail='', run=0):
        self.props = set(props)
        self.clause = clause
        self.detail = detail
        self.run = run
        self.sched = None

    def __repr__(self):
        return f'V({sorted(self.props)} {self.clause}: {self.detail})'

    def as_dict(self):
        return {'props': sorted(self.props), 'clause': self.clause, 'detail': self.detail, 'run': self.run}


def features(spec):
    f = set()
    for n in spec['nodes']:
        for _, m in n.get('params', ()):
            f.add(m[0])
        if n.get('plan') or n.get('retry'):
            f.add('retry')
    return f


def construct_props(spec):
    f = features(spec)
    out = set()
    if 'Switch' in f:
        out.add('C09')
    if 'OneOf' in f:
        out.add('C10')
    if 'Rec' in f:
        out.add('C11')
    return out


class RunView:
    """events of one run, indexed"""

    def __init__(self, rec, run):
        self.run = run
        self.starts = []      # (seq, vtime, node, kd, idx, kwargs)
        self.raises = {}      # (node, kd, idx) -> (seq, vtime, outcome)
        self.ends = {}        # (node, kd, idx) -> (seq, vtime, value)
        self.defaults = []    # (seq, vtime, node, kd)
        self.events = []      # (seq, kind, node, payload)
        self.saves = []       # (seq, node, value, typename)
        self.run_done = None
        self.cancel_seq = None
        for ev in rec.trace:
            seq, vt, kind, r, node, payload = ev
            if r != run:
                continue
            if kind == 'body_start':
                self.starts.append((seq, vt, node, payload[0], payload[1], payload[2]))
            elif kind == 'body_raise':
                self.raises[(node, payload[0], payload[1])] = (seq, vt, payload[2])
            elif kind == 'body_end':
                self.ends[(node, payload[0], payload[1])] = (seq, vt, payload[2])
            elif kind == 'default_call':
                self.defaults.append((seq, vt, node, payload[0]))
            elif kind.startswith('ev_'):
                self.events.append((seq, kind[3:], node, payload))
            elif kind == 'save':
                self.saves.append((seq, node, payload[0], payload[1]))
            elif kind == 'run_done':
                self.run_done = seq
            elif kind == 'cancel':
                self.cancel_seq = seq


# -------------------------------------------------------------------------------------------
def o_termination(case, rec):
    if rec.status == DONE:
        # bounded liveness: once the last external completion / timer / fault has been delivered, the run must end
        # within a bounded number of loop handles (generous: observed maximum on the claimed classes is < 300)
        bound = 2000 + 200 * len(case['spec']['nodes'])
        if (rec.max_lag or 0) > bound:
            return [Violation({'C02'}, 'slow_termination',
                              f'{rec.max_lag} loop handles between the last external event and the end of the run '
                              f'(bound {bound})')]
        return []
    pend = [i for i, o in enumerate(rec.outcomes) if o[0] == 'pending']
    # a run that never ends also never delivers what the construct-specific properties promise
    props = {'C02'} | construct_props(case['spec'])
    if rec.status == QUIESCENT:
        return [Violation(props, 'deadlock',
                          f'loop idle, no gate/timer outstanding, runs {pend} still pending after '
                          f'{rec.steps} handles')]
    return [Violation(props, 'livelock', f'step cap hit after {rec.steps} handles, runs {pend} pending')]


def o_outcome(case, rec, ref, run=0, cancelled=False):
    """engine outcome vs reference outcome (C01 value part, C05 failure part)"""
    if rec.status != DONE:
        return []
    oc = rec.outcomes[run]
    out = ref.outcome
    cp = construct_props(case['spec'])
    vs = []
    if cancelled:
        return vs
    if oc[0] == 'cancelled':
        return [Violation({'C05', 'C01'}, 'cancelled_error_escapes',
                          'chart.run ended with CancelledError although nobody cancelled it', run)]
    if out.ok:
        want = vrepr(out.val)
        if oc[0] == 'value':
            if oc[1] != want:
                vs.append(Violation({'C01'} | cp, 'wrong_value', f'got {oc[1]} want {want}', run))
        elif oc[0] == 'error':
            vs.append(Violation({'C01', 'C05'} | cp, 'spurious_error',
                                f'reference yields {want}, engine reported {oc[1]} {oc[2]}', run))
        else:
            vs.append(Violation({'C01', 'C05'} | cp, 'spurious_raise',
                                f'reference yields {want}, chart.run raised {oc[1]} {oc[2]}', run))
        return vs
    causes = out.causes
    kinds = {c[0] for c in causes}
    toks = {(c[1], c[2], c[3]): c[4] for c in causes if c[0] == 'tok'}
    if oc[0] == 'value':
        vs.append(Violation({'C01', 'C05'} | cp, 'value_despite_failure',
                            f'engine returned {oc[1]}; reference fails with {sorted(causes, key=repr)}', run))
    elif oc[0] == 'error':
        tname, tok, val = oc[1], oc[2], oc[3]
        ok = False
        if tok is not None and tok[0] == 'tok':
            key = (tok[2], tok[3], tok[4])
            ok = tok[1] == run and key in toks and toks[key] != 'B'
        elif tname == 'OneOfDoesNotHaveResultError':
            ok = 'oneof' in kinds
        elif tname == 'RecurrentSubgraphDoesNotHaveResultError':
            ok = 'rec' in kinds
        elif 'nocase' in kinds and tname not in ARTEFACT_TYPES:
            ok = True
        if not ok:
            vs.append(Violation({'C05', 'C01'} | cp, 'unfaithful_error',
                                f'reported {tname} {tok}; acceptable root causes {sorted(causes, key=repr)}', run))
        if val != 'None':
            vs.append(Violation({'C05'}, 'error_with_value', f'error result carries value {val}', run))
    elif oc[0] == 'raised':
        tname, tok = oc[1], oc[2]
        ok = False
        if tok is not None and tok[0] == 'tok':
            key = (tok[2], tok[3], tok[4])
            ok = tok[1] == run and toks.get(key) == 'B'
        if not ok:
            vs.append(Violation({'C05', 'C01'} | cp, 'run_raised',
                                f'chart.run raised {tname} {tok}; acceptable {sorted(causes, key=repr)}', run))
    return vs


def o_calls(case, rec, ref, view: RunView, complete=True):
    """engine body invocations vs the reference's (C03, C04, C09-C12)"""
    spec = case['spec']
    cp = construct_props(spec)
    nodes = {n['name']: n for n in spec['nodes']}
    refms = ref.call_multiset()
    ref_by_node = defaultdict(set)
    for (n, kd, idx) in refms:
        ref_by_node[n].add(kd)
    seen = defaultdict(int)
    vs = []
    flagged = set()
    for seq, vt, node, kd, idx, kw in view.starts:
        key = (node, kd, idx)
        seen[key] += 1
        if node in flagged:
            continue
        if key in refms:
            if seen[key] > refms[key]:
                flagged.add(node)
                vs.append(Violation({'C04'} | cp, 'duplicate_execution',
                                    f'{node} invoked again with identical arguments (attempt index {idx})', view.run))
            continue
        flagged.add(node)
        if node not in ref.demanded:
            vs.append(Violation(cp or {'C04'}, 'undemanded_node_executed',
                                f'{node} executed but the dataflow semantics never demands it', view.run))
        elif kd not in ref_by_node[node]:
            bad = _classify_args(kw)
            marks = {m[0] for _, m in nodes[node].get('params', ())}
            props = {'C03'}
            if 'Switch' in marks:
                props.add('C09')
            if 'OneOf' in marks:
                props.add('C10')
            if 'Rec' in marks or nodes[node].get('add_data') or 'Rec' in features(spec):
                props.add('C11')
            if bad == ':exception_as_argument':
                props |= cp     # "failures are never delivered to a consumer as a value" (C10)
            vs.append(Violation(props, 'wrong_arguments' + bad,
                                f'{node} invoked with {dict(kw)}; reference digests {sorted(ref_by_node[node])}',
                                view.run))
        else:
            props = {'C04'}
            if nodes[node].get('plan') or nodes[node].get('retry'):
                props.add('C12')
            if 'Rec' in features(spec):
                props.add('C11')
            vs.append(Violation(props, 'too_many_executions',
                                f'{node} kd={kd} attempt index {idx} exceeds the reference count', view.run))
    if complete and ref.outcome.ok and rec.status == DONE and rec.outcomes[view.run][0] == 'value':
        for (n, kd, idx), c in sorted(refms.items()):
            if n in ref.must and seen.get((n, kd, idx), 0) < c and n not in flagged:
                flagged.add(n)
                props = {'C12'} if (nodes[n].get('plan') or nodes[n].get('retry')) else {'C04'}
                if 'Rec' in features(spec):
                    props.add('C11')
                vs.append(Violation(props, 'missing_execution',
                                    f'{n} kd={kd} attempt {idx} required by the semantics but never invoked',
                                    view.run))
    return vs


def _classify_args(kw):
    for k, v in kw:
        if v.startswith('<exc'):
            return ':exception_as_argument'
        if v.startswith('<Recurrent'):
            return ':recurrent_marker_as_argument'
    return ''


def o_retry(case, rec, ref, view: RunView):
    """C12: delay between attempts, default called with the body's kwargs, default multiset"""
    vs = []
    start_at = {}
    for seq, vt, node, kd, idx, kw in view.starts:
        start_at.setdefault((node, kd, idx), (seq, vt))
    for ex in ref.executions:
        n, kd = ex['node'], ex['kd']
        idxs = ex['idxs']
        for a, b in zip(idxs, idxs[1:]):
            ra = view.raises.get((n, kd, a))
            sb = start_at.get((n, kd, b))
            if ra is None or sb is None:
                continue
            gap = sb[1] - ra[1]
            if gap + 1e-9 < ex['delay']:
                vs.append(Violation({'C12'}, 'retry_too_early',
                                    f'{n}: attempt {b} started {gap}s after the failure, delay={ex["delay"]}', view.run))
            if sb[0] < ra[0]:
                vs.append(Violation({'C12', 'C04'}, 'attempts_overlap', f'{n}: attempt {b} started before {a} failed',
                                    view.run))
    # two-sided delay: every asyncio.sleep the engine's retry loop asked for lasts exactly the node's configured delay
    # (virtual time only bounds the gap from below: a timer may legitimately fire late)
    nodes_by_name = {n['name']: n for n in case['spec']['nodes']}
    for r, node_id, dur in (rec.retry_timers or ()):
        if r != view.run:
            continue
        name = re.split(r'[^0-9A-Za-z]+', str(node_id))[-1]
        nd = nodes_by_name.get(name)
        if nd is None:
            continue
        want = (nd.get('retry') or {}).get('delay') or 0
        if abs(dur - want) > 1e-9:
            vs.append(Violation({'C12'}, 'retry_delay_wrong',
                                f'{name}: the retry loop slept {dur}s between attempts, configured delay={want}', view.run))
            break
    refd = defaultdict(int)
    for n, kd in ref.defaults:
        refd[(n, kd)] += 1
    got = defaultdict(int)
    for seq, vt, n, kd in view.defaults:
        got[(n, kd)] += 1
        if got[(n, kd)] > refd.get((n, kd), 0):
            known = {k for (m, k) in refd if m == n}
            props = {'C12'}
            if 'Rec' in features(case['spec']):
                props.add('C11')
            vs.append(Violation(props, 'unexpected_default',
                                f'{n}.get_default called with kwargs digest {kd}; reference expects {sorted(known)}',
                                view.run))
    if ref.outcome.ok and rec.status == DONE and rec.outcomes[view.run][0] == 'value':
        for (n, kd), c in refd.items():
            if n in ref.must and got.get((n, kd), 0) < c:
                vs.append(Violation({'C12'}, 'missing_default', f'{n}.get_default({kd}) expected', view.run))
    return vs


def o_leftover(case, rec, nruns=1):
    """C13: nothing left behind after every run has ended"""
    vs = []
    if rec.status != DONE:
        return vs
    if rec.leftover:
        vs.append(Violation({'C13'}, 'leftover_task',
                            f'tasks still pending after the run ended and the loop went idle: {rec.leftover[:6]}'))
    bound = 400 + 40 * len(case['spec']['nodes'])
    if rec.after_done_handles > bound * max(1, nruns):
        vs.append(Violation({'C13'}, 'slow_drain', f'{rec.after_done_handles} handles after the run ended'))
    done_at = {}
    for ev in rec.trace:
        seq, vt, kind, r, node, payload = ev
        if kind == 'run_done':
            done_at[r] = seq
        elif r in done_at and (kind in ('body_start', 'default_call', 'save') or kind.startswith('ev_')):
            vs.append(Violation({'C13'}, 'late_activity', f'{kind} {node} of run {r} after that run had ended', r))
            break
    return vs


def general(case, rec, ref, run=0, cancelled=False):
    view = RunView(rec, run)
    vs = []
    vs += o_outcome(case, rec, ref, run, cancelled)
    vs += o_calls(case, rec, ref, view, complete=not cancelled)
    vs += o_retry(case, rec, ref, view)
    return vs, view


# -------------------------------------------------------------------------------------------
def o_oneof_order(case, rec, ref, view: RunView):
    """C10: nodes first needed by candidate j start only after candidate j-1 is known to have failed"""
    vs = []
    first_start = {}
    for seq, vt, node, kd, idx, kw in view.starts:
        first_start.setdefault(node, seq)
    for consumer, kw, detail in ref.oneof_detail:
        for prev, cur in zip(detail, detail[1:]):
            if prev['ok']:
                continue
            raise_seqs = []
            for c in prev['causes']:
                if c[0] == 'tok':
                    r = view.raises.get((c[1], c[2], c[3]))
                    if r is not None:
                        raise_seqs.append(r[0])
            if not raise_seqs:
                continue
            known = min(raise_seqs)
            ctx = (consumer, kw, cur['cand'])
            outside = ref.needed_outside(ctx)
            private = [x for x in cur['new'] if x not in outside]
            for x in sorted(private):
                s = first_start.get(x)
                if s is not None and s < known:
                    vs.append(Violation({'C10'}, 'candidate_started_early',
                                        f'{x} (needed only from candidate {cur["cand"]} of {consumer}.{kw}) started '
                                        f'before candidate {prev["cand"]} had failed', view.run))
                    return vs
    return vs


SYNTH_PREFIXES = ('switch__', 'input_one_of__')


def o_events(case, rec, ref, view: RunView, em_idx=0, cancelled=False):
    """C14: well-formedness automaton over the event word of one (non-raising) event manager, merged
    with the body trace"""
    vs = []
    run = view.run
    word = [(seq, kind, node, payload) for seq, kind, node, payload in view.events if payload and payload[0] == em_idx]
    if not word:
        return [Violation({'C14'}, 'no_events', 'event manager registered but nothing observed', run)]
    P = {'C14'}
    if word[0][1] != 'pipeline_start':
        vs.append(Violation(P, 'first_event_not_pipeline_start', f'first event {word[0][1]}', run))
    n_start = sum(1 for w in word if w[1] == 'pipeline_start')
    n_compl = sum(1 for w in word if w[1] == 'pipeline_complete')
    if n_start != 1:
        vs.append(Violation(P, 'pipeline_start_count', f'{n_start} on_pipeline_start', run))
    finished = rec.status == DONE and rec.outcomes[run][0] in ('value', 'error')
    if finished:
        if n_compl != 1:
            vs.append(Violation(P, 'pipeline_complete_count', f'{n_compl} on_pipeline_complete', run))
        elif word[-1][1] != 'pipeline_complete':
            vs.append(Violation(P, 'event_after_pipeline_complete', f'last event is {word[-1][1]} {word[-1][2]}', run))
        else:
            got = (rec.complete_results or {}).get(run) or []
            res = rec.results[run]
            if not any(g is res for g in got):
                vs.append(Violation(P, 'pipeline_complete_other_result',
                                    'on_pipeline_complete did not carry the PipelineResult that run returned', run))
    elif n_compl > 1:
        vs.append(Violation(P, 'pipeline_complete_count', f'{n_compl} on_pipeline_complete', run))
    # merged per-node automaton
    merged = []
    for seq, kind, node, payload in word:
        if kind in ('node_start', 'node_complete'):
            merged.append((seq, kind, node, payload))
    for seq, vt, node, kd, idx, kw in view.starts:
        merged.append((seq, 'body_start', node, (kd, idx, kw)))
    for (node, kd, idx), (seq, vt, oc) in view.raises.items():
        merged.append((seq, 'body_raise', node, (kd, idx, oc)))
    for (node, kd, idx), (seq, vt, val) in view.ends.items():
        merged.append((seq, 'body_end', node, (kd, idx, val)))
    for seq, vt, node, kd in view.defaults:
        merged.append((seq, 'default', node, (kd,)))
    merged.sort(key=lambda x: x[0])
    st = {}   # node -> dict(state, pending_raise, last_ok, completes)
    ok_complete_seq = defaultdict(list)
    for seq, kind, node, payload in merged:
        if isinstance(node, str) and node.startswith(SYNTH_PREFIXES):
            vs.append(Violation(P, 'synthetic_node_event', f'{kind} for synthetic node {node}', run))
            return vs
        s = st.setdefault(node, {'state': 'idle', 'pending': None, 'value': False})
        if kind == 'node_start':
            if s['state'] == 'open':
                vs.append(Violation(P, 'node_start_twice', f'{node}: on_node_start while an execution is open '
                                    '(no on_node_complete since the previous on_node_start)', run))
                return vs
            s.update(state='open', pending=None, value=False, attempts=0)
        elif kind == 'body_start':
            if s['state'] not in ('open', 'retry'):
                vs.append(Violation(P, 'body_outside_node_start', f'{node}: body invoked without a preceding '
                                    'on_node_start of this execution', run))
                return vs
            if s['pending'] is not None:
                vs.append(Violation(P, 'attempt_without_complete', f'{node}: next attempt started before '
                                    'on_node_complete(error) of the failed attempt', run))
                return vs
            s['state'] = 'open'
        elif kind == 'body_raise':
            s['pending'] = ('tok', run, node, payload[0], payload[1])
        elif kind == 'body_end':
            s['value'] = True
        elif kind == 'default':
            s['value'] = True
            s['pending'] = None
        elif kind == 'node_complete':
            err = payload[1]
            if s['state'] == 'idle':
                vs.append(Violation(P, 'node_complete_without_start', f'{node}: on_node_complete without '
                                    'on_node_start', run))
                return vs
            if err is None:
                if s['pending'] is not None:
                    vs.append(Violation(P, 'complete_ok_after_failure', f'{node}: on_node_complete(error=None) '
                                        f'although the attempt raised {s["pending"]}', run))
                    return vs
                if not s['value']:
                    vs.append(Violation(P, 'complete_ok_without_value', f'{node}: on_node_complete(error=None) '
                                        'but the node produced no value', run))
                    return vs
                ok_complete_seq[node].append(seq)
                s.update(state='closed', pending=None)
            else:
                if s['pending'] is None:
                    vs.append(Violation(P, 'complete_error_without_failure', f'{node}: on_node_complete(error='
                                        f'{err}) but no attempt failed', run))
                    return vs
                if tuple(err) != tuple(s['pending']):
                    vs.append(Violation(P, 'complete_wrong_error', f'{node}: on_node_complete reported {err}, the '
                                        f'attempt raised {s["pending"]}', run))
                    return vs
                s.update(state='retry', pending=None)
    # value delivered before successful complete?
    prod_ends = defaultdict(list)
    for (node, kd, idx), (seq, vt, val) in view.ends.items():
        prod_ends[(node, kd)].append(seq)
    def_ends = defaultdict(list)
    for ds, dv, dn, dk in view.defaults:
        def_ends[(dn, dk)].append(ds)
    for seq, vt, node, kd, idx, kw in view.starts:
        for k, v in kw:
            if v.startswith("('v','") or v.startswith("('d','"):
                parts = v.split("','")
                src, skd = parts[1], parts[2].split("'")[0]
                cand = [x for x in (prod_ends if v.startswith("('v','") else def_ends).get((src, skd), ()) if x < seq]
                if not cand:
                    continue
                e = max(cand)
                if not any(e < c < seq for c in ok_complete_seq.get(src, ())):
                    vs.append(Violation(P, 'value_before_complete',
                                        f'{node} received the value of {src} before its successful on_node_complete', run))
                    return vs
    # counts on successful runs
    if finished and ref.outcome.ok and rec.outcomes[run][0] == 'value' and not cancelled:
        starts = defaultdict(int)
        completes = defaultdict(int)
        for seq, kind, node, payload in word:
            if kind == 'node_start':
                starts[node] += 1
            elif kind == 'node_complete':
                completes[node] += 1
        forced = defaultdict(int)
        for n, kd in ref.forced_defaults:
            forced[n] += 1
        for n in sorted(ref.must):
            att = ref.exec_attempts.get(n, [])
            want_s = len(att) + forced[n]
            want_c = sum(att) + forced[n]
            if starts[n] != want_s:
                vs.append(Violation(P, 'node_start_count', f'{n}: {starts[n]} on_node_start, {want_s} executions', run))
                break
            if completes[n] != want_c:
                vs.append(Violation(P, 'node_complete_count',
                                    f'{n}: {completes[n]} on_node_complete, {want_c} attempts', run))
                break
    return vs


def o_store(case, rec, ref, view: RunView):
    """C19: each executed node's final value saved exactly once; no Recurrent / failure artifacts"""
    vs = []
    P = {'C19'}
    run = view.run
    for seq, node, val, tname in view.saves:
        if tname == 'Recurrent':
            vs.append(Violation(P, 'recurrent_marker_saved', f'{node}: intermediate Recurrent marker saved', run))
            return vs
        if val.startswith('<exc'):
            vs.append(Violation(P, 'failure_saved', f'{node}: failure object {val} saved as artifact', run))
            return vs
    if not (ref.outcome.ok and rec.status == DONE):
        return vs
    if rec.outcomes[run][0] != 'value':
        vs.append(Violation(P, 'store_made_run_fail',
                            f'reference yields a value; with the store configured the run ended {rec.outcomes[run][:3]}', run))
        return vs
    count = defaultdict(list)
    for seq, node, val, tname in view.saves:
        count[node].append(val)
    executed = {node for seq, vt, node, kd, idx, kw in view.starts}
    executed |= {n for seq, vt, n, kd in view.defaults}
    # nodes whose execution completed with a value in this run (a node that failed - contained by a one-of - or
    # that was still in flight when the run ended has no value to save)
    completed = {n for (n, kd, idx), (seq, vt, val) in view.ends.items() if not val.startswith("('R'")}
    completed |= {n for seq, vt, n, kd in view.defaults}
    for n in sorted(executed):
        fin = ref.final.get(n)
        if fin is None:
            continue
        want = 1 if (fin.ok and n in completed) else 0
        if n not in ref.must and len(count[n]) == 0:
            continue
        if len(count[n]) != want:
            vs.append(Violation(P, 'save_count', f'{n}: saved {len(count[n])} times, expected {want}', run))
            return vs
        if want and count[n][0] != vrepr(fin.val):
            vs.append(Violation(P, 'saved_value_not_final', f'{n}: saved {count[n][0]}, final value {vrepr(fin.val)}',
                                run))
            return vs
    for n in count:
        if n not in executed and not (isinstance(n, str) and n.startswith(SYNTH_PREFIXES)):
            vs.append(Violation(P, 'save_of_unexecuted_node', f'{n}', run))
            return vs
    return vs
