"""Reference interpreter: evaluates the *declarations* (program spec) as a pure, demand-driven
dataflow program.  Shares no code with the engine and never looks at the built DAG.  The only
things shared with the generated bodies are the program's own value functions (compute_value,
default_value, kdigest) - those are the program, not the engine."""
from __future__ import annotations

from collections import defaultdict

from .materialize import compute_value, default_value, exc_matches, kdigest, plan_outcome, vrepr

VAL = 'val'
ERR = 'err'


class Res:
    __slots__ = ('kind', 'val', 'causes')

    def __init__(self, kind, val=None, causes=frozenset()):
        self.kind = kind
        self.val = val
        self.causes = causes

    @property
    def ok(self):
        return self.kind == VAL

    def __repr__(self):
        return f'Res({self.kind}, {vrepr(self.val) if self.ok else sorted(self.causes, key=repr)})'


def declared_edges(spec):
    """dependency relation of the declarations: (src, dst) pairs, incl. implicit input edges"""
    edges = set()
    inp = spec['input']
    for n in spec['nodes']:
        name = n['name']
        params = n.get('params', ())
        if not params and name != inp:
            edges.add((inp, name))
        for _, m in params:
            k = m[0]
            if k == 'In':
                edges.add((m[1], name))
            elif k == 'Switch':
                edges.add((m[2], name))
                for _, c in m[3]:
                    edges.add((c, name))
            elif k == 'OneOf':
                edges.add((inp, name))
                for c in m[1]:
                    edges.add((c, name))
            elif k == 'Rec':
                edges.add((m[2], name))
    return edges


def reachable(spec):
    """names reachable (backwards) from the output, i.e. what build_dag would include"""
    preds = defaultdict(set)
    for a, b in declared_edges(spec):
        preds[b].add(a)
    seen = {spec['output']}
    todo = [spec['output']]
    while todo:
        x = todo.pop()
        for p in preds[x]:
            if p not in seen:
                seen.add(p)
                todo.append(p)
    # Rec marks also pull in nothing extra: start is an ancestor of dest by construction
    return seen


def rec_decls(spec, only=None):
    out = {}
    for n in spec['nodes']:
        if only is not None and n['name'] not in only:
            continue
        for _, m in n.get('params', ()):
            if m[0] == 'Rec':
                out[m[2]] = (m[1], m[3])
    return out


def path_set(spec, start, dest):
    succ = defaultdict(set)
    pred = defaultdict(set)
    for a, b in declared_edges(spec):
        succ[a].add(b)
        pred[b].add(a)

    def closure(x, rel):
        seen = {x}
        todo = [x]
        while todo:
            y = todo.pop()
            for z in rel[y]:
                if z not in seen:
                    seen.add(z)
                    todo.append(z)
        return seen

    return closure(start, succ) & closure(dest, pred)


class Reference:
    def __init__(self, spec, input_kwargs, run=0):
        self.spec = spec
        self.nodes = {n['name']: n for n in spec['nodes']}
        self.input_kwargs = dict(input_kwargs)
        self.run = run
        self.reach = reachable(spec)
        self.rec = rec_decls(spec, self.reach)
        self.memo = {}
        self.add_data = {}
        self.inv = {}
        self.calls = []          # (node, kd, idx, outcome) in reference order
        self.executions = []     # one dict per node execution (all its attempts)
        self.defaults = []       # (node, kd)
        self.exec_attempts = defaultdict(list)  # node -> [attempt count per execution]
        self.demanded = set()
        self.iterations = defaultdict(int)   # dest -> re-iterations performed
        self.exhausted = set()
        self.forced_defaults = []
        self.final = {}          # node -> final Res
        self.oneof_log = []      # (consumer, kw, [(cand, ok)], winner)
        self.switch_log = []     # (consumer, kw, switchnode, label, case|None)
        self.oneof_detail = []
        self.requests = {}      # node -> set of one-of context stacks it was requested from
        self.ctx_stack = []
        self.req_edges = set()
        self.eval_stack = []
        self.last_kwargs = {}
        self._paths = {}
        self._desc_memo = {}
        self._forcing = set()
        self.epoch = 0

    # -- evaluation --------------------------------------------------------------------------
    def evaluate(self):
        out = self.eval_in(self.spec['output'])
        self.outcome = out
        self.must = set()
        if out.ok:
            self._must(self.spec['output'])
        return out

    def eval_in(self, n):
        if n in self.rec:
            return self.eval_rec(n)
        # a reader outside a recurrent subgraph (and not downstream of its destination) must still only see the
        # FINAL value of an inner node (C03): the subgraph is brought to its end first
        requester = self.eval_stack[-1] if self.eval_stack else None
        for dest, (start, _mx) in self.rec.items():
            P = self._path(start, dest)
            if n in P and n != dest and requester is not None and requester not in P \
                    and requester not in self._desc(dest) and dest not in self._forcing:
                self._forcing.add(dest)
                try:
                    self.eval_rec(dest)
                finally:
                    self._forcing.discard(dest)
        return self.demand(n)

    def _desc(self, n):
        if n not in self._desc_memo:
            succ = defaultdict(set)
            for a, b in declared_edges(self.spec):
                succ[a].add(b)
            seen = set()
            todo = [n]
            while todo:
                y = todo.pop()
                for z in succ[y]:
                    if z not in seen:
                        seen.add(z)
                        todo.append(z)
            self._desc_memo[n] = seen
        return self._desc_memo[n]

    def demand(self, n) -> Res:
        self.requests.setdefault(n, set()).add(tuple(self.ctx_stack))
        self.req_edges.add((self.eval_stack[-1] if self.eval_stack else None, n))
        hit = self.memo.get(n)
        if hit is not None:
            return hit
        self.demanded.add(n)
        self.eval_stack.append(n)
        try:
            return self._demand(n)
        finally:
            self.eval_stack.pop()

    def needed_outside(self, ctx):
        """nodes that are (transitively) requested from somewhere outside the one-of candidate context ctx"""
        out = {x for x, stacks in self.requests.items() if any(ctx not in st for st in stacks)}
        changed = True
        while changed:
            changed = False
            for y, x in self.req_edges:
                if y in out and x not in out:
                    out.add(x)
                    changed = True
        return out

    def _demand(self, n) -> Res:
        node = self.nodes[n]
        inp = self.spec['input']
        causes = set()
        failed = False
        if n == inp:
            kwargs = dict(self.input_kwargs)
        else:
            params = node.get('params', ())
            while True:
                # a parameter read before a recurrent re-iteration (triggered by a later parameter)
                # superseded it must be re-read: consumers only ever see final values (C03)
                stamp = self.epoch
                kwargs = {}
                causes = set()
                failed = False
                if not params:
                    r = self.eval_in(inp)
                    if not r.ok:
                        failed = True
                        causes |= r.causes
                for kw, mark in params:
                    r = self.eval_mark(n, kw, mark)
                    if r.ok:
                        kwargs[kw] = r.val
                    else:
                        failed = True
                        causes |= r.causes
                if self.epoch == stamp:
                    break
        if failed:
            res = Res(ERR, causes=frozenset(causes))
        else:
            if n in self.add_data:
                kwargs['additional_data'] = self.add_data[n]
            res = self.invoke(n, kwargs)
        self.memo[n] = res
        self.final[n] = res
        return res

    def invoke(self, n, kwargs) -> Res:
        node = self.nodes[n]
        retry = node.get('retry') or {}
        attempts = retry.get('attempts') or 1
        filt = retry.get('exceptions')
        use_default = bool(retry.get('use_default'))
        plan = node.get('plan') or ()
        dkwargs = dict(kwargs)                      # get_default gets the engine's kwargs ...
        generic = node.get('generic')
        if generic is not None:
            kwargs = dict(kwargs)
            kwargs.update(generic.get('defaults') or {})   # ... the body also the dependencies_default of build_node
        kd = kdigest(n, kwargs)
        dkd = kdigest(n, dkwargs)
        self.last_kwargs[n] = (dkwargs, dkd)
        a = 1
        ex_rec = {'node': n, 'kd': kd, 'idxs': [], 'outcomes': [], 'default': False, 'delay': retry.get('delay') or 0}
        self.executions.append(ex_rec)
        while True:
            key = (n, kd)
            idx = self.inv.get(key, 0)
            self.inv[key] = idx + 1
            outcome = plan_outcome(plan, idx, kd)
            self.calls.append((n, kd, idx, outcome))
            ex_rec['idxs'].append(idx)
            ex_rec['outcomes'].append(outcome)
            if outcome == 'ok':
                self.exec_attempts[n].append(a)
                return Res(VAL, compute_value(node, kwargs, kd))
            if outcome == 'B':
                self.exec_attempts[n].append(a)
                return Res(ERR, causes=frozenset({('tok', n, kd, idx, 'B')}))
            if exc_matches(outcome, filt) and a < attempts:
                a += 1
                continue
            self.exec_attempts[n].append(a)
            if use_default:
                self.defaults.append((n, dkd))
                ex_rec['default'] = True
                return Res(VAL, default_value(node, dkwargs, dkd))
            return Res(ERR, causes=frozenset({('tok', n, kd, idx, outcome)}))

    def eval_mark(self, consumer, kw, mark) -> Res:
        k = mark[0]
        if k == 'In':
            return self.eval_in(mark[1])
        if k == 'Rec':
            return self.eval_rec(mark[2])
        if k == 'Switch':
            r = self.eval_in(mark[2])
            if not r.ok:
                return r
            label = r.val
            for lab, c in mark[3]:
                if lab == label:
                    self.switch_log.append((consumer, kw, mark[2], label, c))
                    return self.eval_in(c)
            self.switch_log.append((consumer, kw, mark[2], label, None))
            return Res(ERR, causes=frozenset({('nocase', consumer, kw, vrepr(label))}))
        if k == 'OneOf':
            # the one-of itself hangs on the input node (builder: edge input -> head): a failing input node is a
            # failure of the consumer, not of a candidate
            r0 = self.eval_in(self.spec['input'])
            if not r0.ok:
                return r0
            tried = []
            detail = []
            for c in mark[1]:
                before = set(self.demanded)
                ncalls = len(self.calls)
                self.ctx_stack.append((consumer, kw, c))
                try:
                    r = self.eval_in(c)
                finally:
                    self.ctx_stack.pop()
                tried.append((c, r.ok))
                detail.append({'cand': c, 'ok': r.ok, 'new': self.demanded - before,
                               'causes': r.causes if not r.ok else frozenset(),
                               'calls': self.calls[ncalls:]})
                if r.ok:
                    self.oneof_log.append((consumer, kw, tried, c))
                    self.oneof_detail.append((consumer, kw, detail))
                    return r
            self.oneof_log.append((consumer, kw, tried, None))
            self.oneof_detail.append((consumer, kw, detail))
            return Res(ERR, causes=frozenset({('oneof', consumer, kw)}))
        raise ValueError(k)

    def _path(self, start, dest):
        key = (start, dest)
        if key not in self._paths:
            self._paths[key] = path_set(self.spec, start, dest)
        return self._paths[key]

    def eval_rec(self, dest) -> Res:
        start, mx = self.rec[dest]
        r = self.demand(dest)
        done = 0   # re-iterations of THIS activation of the subgraph (the bound is per activation)
        while r.ok and isinstance(r.val, tuple) and r.val and r.val[0] == 'R':
            if done >= mx:
                self.exhausted.add(dest)
                node = self.nodes[dest]
                if (node.get('retry') or {}).get('use_default'):
                    kwargs, kd = self.last_kwargs[dest]
                    self.defaults.append((dest, kd))
                    self.forced_defaults.append((dest, kd))
                    r = Res(VAL, default_value(node, kwargs, kd))
                else:
                    r = Res(ERR, causes=frozenset({('rec', dest)}))
                self.memo[dest] = r
                self.final[dest] = r
                return r
            self.iterations[dest] += 1
            done += 1
            self.epoch += 1
            for p in self._path(start, dest):
                self.memo.pop(p, None)
            self.add_data[start] = r.val[1]
            r = self.demand(dest)
        return r

    # -- must set (only meaningful when the outcome is a value) --------------------------------
    def _must(self, n):
        if n in self.must:
            return
        self.must.add(n)
        node = self.nodes[n]
        inp = self.spec['input']
        params = node.get('params', ())
        if not params and n != inp:
            self._must(inp)
        for kw, mark in params:
            k = mark[0]
            if k == 'In':
                self._must(mark[1])
            elif k == 'Rec':
                self._must(mark[2])
            elif k == 'Switch':
                self._must(mark[2])
                for cons, kw2, sw, label, c in self.switch_log:
                    if cons == n and kw2 == kw and c is not None:
                        self._must(c)
            elif k == 'OneOf':
                for cons, kw2, tried, winner in self.oneof_log:
                    if cons == n and kw2 == kw and winner is not None:
                        self._must(winner)

    # -- derived facts ---------------------------------------------------------------------
    def call_multiset(self):
        ms = defaultdict(int)
        for n, kd, idx, _ in self.calls:
            ms[(n, kd, idx)] += 1
        return ms
