"""Turn a program spec (plain JSON data) into real node classes, a real DAG (public build_dag) and
a real PipelineChart.  Node bodies are pure functions of their kwargs plus a per-attempt fault
plan; they report to the simulation trace."""
from __future__ import annotations

import hashlib
import sys
import types
import typing as t
import uuid
from enum import Enum

from . import sim as simmod
from .sim import CUR_RUN, SimSet

GEN_MODULE = 'verifsim_gennodes'
if GEN_MODULE not in sys.modules:
    sys.modules[GEN_MODULE] = types.ModuleType(GEN_MODULE)
_gen = sys.modules[GEN_MODULE]


# ---- exceptions raised by generated bodies (picklable: token travels in args) -----------------
class E1(Exception):
    @property
    def token(self):
        return self.args[0] if self.args else None


class E2(E1):
    pass


class E3(Exception):
    @property
    def token(self):
        return self.args[0] if self.args else None


class B1(BaseException):
    @property
    def token(self):
        return self.args[0] if self.args else None


class CollabError(Exception):
    """raised by generated event managers / artifact stores"""


EXC = {'E1': E1, 'E2': E2, 'E3': E3, 'B': B1}
EXC_PARENTS = {'E1': ('E1', 'Exception'), 'E2': ('E2', 'E1', 'Exception'), 'E3': ('E3', 'Exception'), 'B': ('B',)}


def plan_outcome(plan, idx, kd):
    """per-attempt outcome of a node for the invocation number idx with these kwargs.  'E1?' = raise E1 only for
    one half of the argument space (decided by the kwargs digest), so that the same node fails for some inputs /
    runs and succeeds for others - still a pure function of (declaration, arguments, attempt)."""
    outcome = plan[idx] if idx < len(plan) else 'ok'
    if '?' in outcome:
        # 'X?' = X for one half of the argument space, ok for the other; 'X?Y' = X for one half, Y for the other
        first, other = outcome.split('?', 1)
        outcome = first if int(kd, 16) % 2 == 0 else (other or 'ok')
    return outcome


def exc_matches(outcome: str, filt) -> bool:
    """Does an exception of plan-class `outcome` match the node's `exceptions` setting?"""
    if not filt:
        filt = ['Exception']
    return any(f in EXC_PARENTS[outcome] for f in filt)


# ---- values ---------------------------------------------------------------------------------
def norm_kwargs(kwargs: dict) -> dict:
    return {(k.value if isinstance(k, Enum) else k): v for k, v in kwargs.items()}


def vrepr(v) -> str:
    """stable textual form of a value (provenance tuples, None, ints, strs, foreign objects)"""
    if isinstance(v, tuple):
        return '(' + ','.join(vrepr(x) for x in v) + ')'
    if isinstance(v, BaseException):
        return f'<exc {type(v).__name__} {getattr(v, "token", None)!r}>'
    if v is None or isinstance(v, (int, str, float, bool)):
        return repr(v)
    if isinstance(v, list):
        return '[' + ','.join(vrepr(x) for x in v) + ']'
    data = getattr(v, 'data', None)
    return f'<{type(v).__name__} {data!r}>'


def kdigest(node: str, kw: dict) -> str:
    s = node + '|' + ';'.join(f'{k}={vrepr(kw[k])}' for k in sorted(kw))
    return hashlib.sha1(s.encode()).hexdigest()[:10]


def lineage_of(kw: dict) -> dict:
    lin = {}
    for v in kw.values():
        if isinstance(v, tuple) and len(v) == 4 and v[0] in ('v', 'd'):
            for s, c in v[3]:
                if c > lin.get(s, -1):
                    lin[s] = c
    return lin


def compute_value(nspec: dict, kw: dict, kd: str):
    """The node's value as a pure function of (declaration, kwargs).  Shared with the reference:
    this is the *program*, not the engine."""
    name = nspec['name']
    kind = nspec.get('value', 'prov')
    if isinstance(kind, dict):
        labels = kind['labels']
        return labels[int(kd, 16) % len(labels)]
    if kind == 'none':
        return None
    if kind == 'zero':
        return 0
    if kind == 'empty':
        return ''
    if kind == 'false':
        return False
    lin = lineage_of(kw)
    if nspec.get('add_data'):
        ad = kw.get('additional_data')
        lin[name] = ad if isinstance(ad, int) else 0
    rec = nspec.get('rec')
    if rec:
        cnt = lin.get(rec['start'], 0)
        # nested subgraphs: every iteration of an enclosing subgraph makes the inner destination ask for k more
        others = max([c for st, c in lin.items() if st != rec['start']] + [0])
        if cnt < rec['k'] * (1 + others):
            return ('R', cnt + 1)
    return ('v', name, kd, tuple(sorted(lin.items())))


def default_value(nspec: dict, kw: dict, kd: str):
    lin = lineage_of(kw)
    return ('d', nspec['name'], kd, tuple(sorted(lin.items())))


# ---- bodies ---------------------------------------------------------------------------------
def _start(nspec: dict, kwargs: dict):
    sim = simmod.current()
    run = CUR_RUN.get()
    name = nspec['name']
    kw = norm_kwargs(kwargs)
    kd = kdigest(name, kw)
    inv = sim.__dict__.setdefault('inv_count', {})
    key = (run, name, kd)
    idx = inv.get(key, 0)
    inv[key] = idx + 1
    sim.log('body_start', name, (kd, idx, tuple(sorted((k, vrepr(v)) for k, v in kw.items()))))
    plan = nspec.get('plan') or ()
    outcome = plan_outcome(plan, idx, kd)
    return sim, run, name, kw, kd, idx, outcome


def _finish(inst, nspec, sim, run, name, kw, kd, idx, outcome):
    if outcome != 'ok':
        token = (run, name, kd, idx)
        sim.log('body_raise', name, (kd, idx, outcome))
        sim.hit('node_raise_' + outcome)
        raise EXC[outcome](token)
    val = compute_value(nspec, kw, kd)
    if isinstance(val, tuple) and val[0] == 'R':
        sim.log('body_end', name, (kd, idx, vrepr(val)))
        sim.hit('next_iteration')
        return inst.next_iteration(val[1])
    if val is None or val in (0, '', False):
        sim.hit('node_returns_falsy')
    sim.log('body_end', name, (kd, idx, vrepr(val)))
    return val


def make_node_class(nspec: dict, classes: dict, uid: str):
    from ml_pipeline_engine.dag_builders.annotation import marks as M
    from ml_pipeline_engine.node import ProcessorBase, RecurrentProcessor
    from ml_pipeline_engine.node.enums import NodeTag

    name = nspec['name']
    mode = nspec.get('mode', 'inline')
    gates = int(nspec.get('gates', 0))
    base = RecurrentProcessor if nspec.get('rec') or nspec.get('rectype') else ProcessorBase

    if mode == 'coro':
        async def process(self, **kwargs):
            st = _start(nspec, kwargs)
            sim = st[0]
            for _ in range(gates):
                await sim.gate(name)
            return _finish(self, nspec, *st)
    else:
        def process(self, **kwargs):
            st = _start(nspec, kwargs)
            return _finish(self, nspec, *st)

    ann = {}
    for kwname, mark in nspec.get('params', ()):
        kind = mark[0]
        if kind == 'In':
            ann[kwname] = M.Input(classes[mark[1]])
        elif kind == 'Switch':
            ann[kwname] = M.SwitchCase(
                switch=classes[mark[2]], cases=[(lab, classes[c]) for lab, c in mark[3]], name=mark[1],
            )
        elif kind == 'OneOf':
            ann[kwname] = M.InputOneOf([classes[c] for c in mark[1]])
        elif kind == 'Rec':
            ann[kwname] = M.RecurrentSubGraph(
                start_node=classes[mark[1]], dest_node=classes[mark[2]], max_iterations=mark[3],
            )
        else:  # pragma: no cover
            raise ValueError(kind)
    if nspec.get('add_data'):
        ann['additional_data'] = t.Any
    for k in nspec.get('input_keys', ()):
        ann[k] = t.Any
    process.__annotations__ = ann

    def get_default(self, **kwargs):
        sim = simmod.current()
        kw = norm_kwargs(kwargs)
        kd = kdigest(name, kw)
        sim.log('default_call', name, (kd, tuple(sorted((k, vrepr(v)) for k, v in kw.items()))))
        sim.hit('default_used')
        return default_value(nspec, kw, kd)

    retry = nspec.get('retry') or {}
    exc_names = retry.get('exceptions')
    tags = {'inline': (NodeTag.non_async,), 'process': (NodeTag.process,), 'thread': (), 'coro': ()}[mode]
    if mode == 'thread' and nspec.get('thread_tag'):
        tags = (NodeTag.thread,)
    clsname = f'N_{uid}_{name}'
    attrs = {
        'process': process,
        'get_default': get_default,
        'name': name,
        'SPEC_NAME': name,
        'tags': tags,
        'attempts': retry.get('attempts'),
        'delay': retry.get('delay'),
        'exceptions': tuple(EXC[e] if e in EXC else Exception for e in exc_names) if exc_names else None,
        'use_default': bool(retry.get('use_default', False)),
        '__module__': GEN_MODULE,
        '__qualname__': clsname,
    }
    generic = nspec.get('generic')
    if generic is not None:
        # the documented way to derive a concrete node from a generic one: build_node(Base, **dependencies) with
        # dependencies_default merged into the call by the engine's wrapper
        from ml_pipeline_engine.node import build_node
        bare = dict(attrs)
        bare['__qualname__'] = clsname + '_G'
        process.__annotations__ = {}
        gbase = type(clsname + '_G', (base,), bare)
        setattr(_gen, clsname + '_G', gbase)
        cls = build_node(gbase, node_name=name, class_name=clsname,
                         attrs={k: v for k, v in attrs.items() if k not in ('process', '__module__', '__qualname__')},
                         dependencies_default=dict(generic.get('defaults') or {}), **ann)
        return cls
    cls = type(clsname, (base,), attrs)
    setattr(_gen, clsname, cls)
    return cls


def node_id(name: str) -> str:
    return f'processor__{name}'


def spec_name(node_id_: str):
    if isinstance(node_id_, str) and node_id_.startswith('processor__'):
        return node_id_[len('processor__'):]
    return node_id_


_CLASS_CACHE: dict = {}


def spec_digest(spec: dict) -> str:
    import json
    return hashlib.sha1(json.dumps(spec, sort_keys=True, default=str).encode()).hexdigest()[:12]


def get_classes(spec: dict) -> dict:
    uid = spec_digest(spec)
    hit = _CLASS_CACHE.get(uid)
    if hit is not None:
        return hit
    if len(_CLASS_CACHE) > 64:
        for k in list(_CLASS_CACHE)[:32]:
            for c in _CLASS_CACHE.pop(k).values():
                for nm in (c.__name__, c.__name__ + '_G'):
                    try:
                        delattr(_gen, nm)
                    except AttributeError:
                        pass
                # build_node registers the derived class in the globals of its own module
                import ml_pipeline_engine.node.node as _nn
                _nn.__dict__.pop(c.__name__, None)
    classes = {}
    for nspec in spec['nodes']:
        classes[nspec['name']] = make_node_class(nspec, classes, uid)
    _CLASS_CACHE[uid] = classes
    return classes


class _UuidStream:
    def __init__(self, seed: int):
        self.n = 0
        self.seed = seed

    def __call__(self):
        self.n += 1
        return uuid.UUID(hashlib.md5(f'{self.seed}:{self.n}'.encode()).hexdigest())


def build_dag(spec: dict, uuid_seed: int = 0):
    """public build_dag over the generated classes; uuid4 pinned while building"""
    from ml_pipeline_engine.dag.manager import DAGRunConcurrentManager
    from ml_pipeline_engine.dag_builders.annotation import build_dag as real_build_dag

    classes = get_classes(spec)
    old = uuid.uuid4
    uuid.uuid4 = _UuidStream(uuid_seed)
    try:
        dag = real_build_dag(input_node=classes[spec['input']], output_node=classes[spec['output']])
    finally:
        uuid.uuid4 = old

    def factory(dag, ctx):
        return DAGRunConcurrentManager(dag=dag, ctx=ctx, _coro_tasks=SimSet(simmod.current().set_rng))

    dag.run_manager = factory
    return dag


# ---- collaborators --------------------------------------------------------------------------
def make_event_manager(cfg: dict, idx: int):
    """cfg: {'slow': bool, 'raise_at': {callback: k}}"""
    slow = cfg.get('slow', False)
    raise_at = cfg.get('raise_at') or {}

    class EM:
        calls: dict = {}

        async def _cb(self, cbname, ctx, node, payload):
            sim = simmod.current()
            cnt = sim.__dict__.setdefault('em_calls', {})
            key = (CUR_RUN.get(), idx, cbname)
            k = cnt.get(key, 0)
            cnt[key] = k + 1
            sim.log('ev_' + cbname, spec_name(node) if node else None, (idx,) + payload)
            if raise_at.get(cbname) == k:
                sim.hit('event_cb_raise')
                raise CollabError(('em', idx, cbname, k))
            if slow:
                sim.hit('event_cb_slow')
                await sim.gate(f'em{idx}', 'em')
                sim.log('evend_' + cbname, spec_name(node) if node else None, (idx,))

        async def on_pipeline_start(self, ctx):
            await self._cb('pipeline_start', ctx, None, (str(ctx.pipeline_id),))

        async def on_pipeline_complete(self, ctx, result):
            sim = simmod.current()
            sim.__dict__.setdefault('complete_results', {}).setdefault(CUR_RUN.get(), []).append(result)
            await self._cb('pipeline_complete', ctx, None,
                           (vrepr(result.value), errtoken(result.error)))

        async def on_node_start(self, ctx, node_id):
            await self._cb('node_start', ctx, node_id, ())

        async def on_node_complete(self, ctx, node_id, error):
            await self._cb('node_complete', ctx, node_id, (errtoken(error),))

    EM.__name__ = f'EM{idx}'
    return EM


def errtoken(err):
    if err is None:
        return None
    tok = getattr(err, 'token', None)
    if tok is not None and isinstance(err, (E1, E3, B1)):
        return ('tok',) + tuple(tok)
    return ('exc', type(err).__name__, vrepr(tuple(a for a in getattr(err, 'args', ()) if isinstance(a, (str, int)))))


def make_artifact_store(cfg: dict):
    """cfg: {'write_once': bool, 'slow': bool, 'raise_at': k}"""
    from ml_pipeline_engine.artifact_store.errors import ArtifactAlreadyExists
    from ml_pipeline_engine.artifact_store.store.base import ArtifactStore

    write_once = cfg.get('write_once', False)
    slow = cfg.get('slow', False)
    raise_at = cfg.get('raise_at')

    class Store(ArtifactStore):
        async def save(self, node_id, data):
            sim = simmod.current()
            run = CUR_RUN.get()
            st = sim.__dict__.setdefault('store_state', {})
            saved = st.setdefault(run, {})
            cnt = sim.__dict__.setdefault('store_calls', {})
            k = cnt.get(run, 0)
            cnt[run] = k + 1
            name = spec_name(node_id)
            sim.log('save', name, (vrepr(data), type(data).__name__))
            if raise_at is not None and raise_at == k:
                sim.hit('store_save_raise')
                raise CollabError(('store', k))
            if slow:
                sim.hit('store_slow')
                await sim.gate('store', 'store')
            if name in saved:
                sim.hit('store_duplicate_save')
                if write_once:
                    sim.hit('store_write_once_conflict')
                    raise ArtifactAlreadyExists(name)
            saved[name] = data
            sim.log('saved', name, None)

        async def load(self, node_id):
            raise NotImplementedError

    return Store


class StubExecutor:
    """Registered through the public registry API; SimLoop.run_in_executor never calls submit()."""

    def __init__(self, is_process: bool):
        self.is_process = is_process
        self._shutdown = False
        self._shutdown_thread = False

    def shutdown(self, *a, **k):
        # what the real executors do when their owner shuts them down
        self._shutdown = True
        self._shutdown_thread = True

    def submit(self, *a, **k):  # pragma: no cover
        raise RuntimeError('StubExecutor.submit must not be reached under SimLoop')


class StubManager:
    def shutdown(self):
        pass


_REG = {}


def setup_registries(state: str = 'both'):
    """Once per process, public API only.  state in both|no-thread|no-process|thread-shutdown|
    process-shutdown|no-manager|thread-shutdown-late|process-shutdown-late (registered healthy; the owner shuts the
    executor down after a first successful use: flip_late())"""
    if _REG:
        if _REG['state'] != state:
            raise RuntimeError('registry state is fixed per process')
        return _REG
    from ml_pipeline_engine.parallelism import process_pool_registry, threads_pool_registry
    th = StubExecutor(False)
    pr = StubExecutor(True)
    if state == 'baton-thread':
        # the REAL thread pool; SimLoop hands its jobs over one at a time (sim.Sim._submit_baton)
        from concurrent.futures import ThreadPoolExecutor
        th = ThreadPoolExecutor(max_workers=64, thread_name_prefix='verif-baton')
    if state != 'no-thread':
        threads_pool_registry.register_pool_executor(th)
    if state != 'no-process':
        process_pool_registry.register_pool_executor(pr)
        if state != 'no-manager':
            process_pool_registry.register_manager(StubManager())
    if state == 'thread-shutdown':
        th._shutdown = True
    if state == 'process-shutdown':
        pr._shutdown_thread = True
    _REG.update(state=state, thread=th, process=pr)
    return _REG


def flip_late():
    """'-late' registry states: the owner of the pool shuts the executor down directly (executor.shutdown(), not
    registry.shutdown()) after the registry has already seen it healthy in an earlier run."""
    st = _REG.get('state', '')
    if not st.endswith('-late') or _REG.get('flipped'):
        return
    if st == 'thread-shutdown-late':
        _REG['thread'].shutdown()
    else:
        _REG['process'].shutdown()
    _REG['flipped'] = True


def quiet_logging():
    import logging
    lg = logging.getLogger('pipeline_engine')
    lg.handlers[:] = [logging.NullHandler()]
    lg.propagate = False
    lg.setLevel(logging.CRITICAL + 10)
    logging.getLogger('asyncio').setLevel(logging.CRITICAL + 10)


# ---- reach probes: count engine log records by message template (no formatting, no clock, no PRNG) ----------
PROBE_TEMPLATES = {
    'Node %s has been executed. Stop new execution': 'duplicate_request_path',
    'An error has been found in the %s': 'oneof_early_exit',
    'Hide previous node results for recurrent subgraph %s': 'recurrent_reiteration',
    'Node %s will be restarted in %s seconds...': 'retry_scheduled',
    'Skip unlocking the descendants of the node, node_id=%s': 'recurrent_marker_returned',
    'Attempts to run a recurrent subgraph have been exceeded. ': 'recurrent_exhausted_default',
    'The %s has been succeeded': 'oneof_candidate_won',
    'Prepare Switch DAG node_id=%s': 'switch_resolved',
    'Task %s has been cancelled': 'engine_cancelled_task',
    'The node %s cannot be executed due to absense the dependent result of the node %s': 'readiness_refused',
}


class ProbeHandler:
    level = 0

    def __init__(self):
        self.counts = {}

    def handle(self, record):
        msg = record.msg
        if isinstance(msg, str):
            for t, name in PROBE_TEMPLATES.items():
                if msg.startswith(t):
                    self.counts[name] = self.counts.get(name, 0) + 1
                    break
        return True


def probe_logging():
    """enable DEBUG on the engine loggers with a counting handler; returns the handler"""
    import logging
    h = ProbeHandler()
    lg = logging.getLogger('pipeline_engine')
    lg.handlers[:] = [h]
    lg.propagate = False
    lg.setLevel(logging.DEBUG)
    return h


def render_source(spec: dict) -> str:
    """human-readable rendering of a program spec as the declarations a user would write (for replay files)"""
    out = ['# rendering of the generated program (bodies are pure functions of their kwargs + the fault plan)']
    for n in spec['nodes']:
        base = 'RecurrentProcessor' if n.get('rec') else 'ProcessorBase'
        params = []
        for kw, m in n.get('params', ()):
            if m[0] == 'In':
                params.append(f'{kw}: Input({m[1]})')
            elif m[0] == 'Switch':
                cases = ', '.join(f'({lab!r}, {c})' for lab, c in m[3])
                params.append(f'{kw}: SwitchCase(switch={m[2]}, cases=[{cases}], name={m[1]!r})')
            elif m[0] == 'OneOf':
                params.append(f'{kw}: InputOneOf([{", ".join(m[1])}])')
            elif m[0] == 'Rec':
                params.append(f'{kw}: RecurrentSubGraph(start_node={m[1]}, dest_node={m[2]}, max_iterations={m[3]})')
        if n['name'] == spec['input']:
            params.append('**input_kwargs')
        if n.get('add_data'):
            params.append('additional_data=None')
        mode = n.get('mode', 'inline')
        tags = {'inline': 'tags = (NodeTag.non_async,)', 'process': 'tags = (NodeTag.process,)'}.get(mode, '')
        out.append(f'class {n["name"]}({base}):')
        if tags:
            out.append(f'    {tags}')
        r = n.get('retry')
        if r:
            out.append(f'    attempts, delay, exceptions, use_default = {r.get("attempts")}, {r.get("delay")}, '
                       f'{r.get("exceptions")}, {bool(r.get("use_default"))}')
        notes = []
        if n.get('plan'):
            notes.append(f'per-attempt outcomes {n["plan"]} then ok')
        if n.get('gates'):
            notes.append(f'{n["gates"]} suspension point(s)')
        if n.get('value') not in (None, 'prov'):
            notes.append(f'returns {n["value"]}')
        if n.get('rec'):
            notes.append(f'asks for next_iteration while additional_data of {n["rec"]["start"]} < {n["rec"]["k"]}')
        out.append(f'    {"async " if mode == "coro" else ""}def process(self, {", ".join(params)}):'
                   + (f'  # {"; ".join(notes)}' if notes else ''))
        out.append('        ...')
    out.append(f'chart = PipelineChart("m", build_dag(input_node={spec["input"]}, output_node={spec["output"]}))')
    return '\n'.join(out)
