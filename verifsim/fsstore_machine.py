"""C18: the filesystem artifact store against a dict model, with fault injection at every write call.

The 'system' is FileSystemArtifactStore over a real fresh directory; `Path` inside the store module is
replaced by a subclass whose open() can fail or return a file object that fails at the k-th write.
Hypothesis (stateful, outside pytest) generates and shrinks operation sequences; the machine keeps its own
op list, which is the replay file."""
from __future__ import annotations

import errno
import json
import pathlib
import shutil
import tempfile
import warnings


class Fault:
    kind = None      # None | 'open' | 'write'
    at = 0
    writes = 0
    fired = 0


FAULT = Fault()


class FaultyFile:
    def __init__(self, f):
        self._f = f

    def write(self, data):
        k = FAULT.writes
        FAULT.writes += 1
        if FAULT.kind == 'write' and k == FAULT.at:
            FAULT.fired += 1
            # torn write: half of the chunk reaches the disk, then ENOSPC
            try:
                self._f.write(data[: len(data) // 2])
            except Exception:  # noqa: BLE001
                pass
            raise OSError(errno.ENOSPC, 'No space left on device (injected)')
        return self._f.write(data)

    def __getattr__(self, name):
        return getattr(self._f, name)

    def __enter__(self):
        self._f.__enter__()
        return self

    def __exit__(self, *a):
        return self._f.__exit__(*a)

    def __iter__(self):
        return iter(self._f)


class FaultyPath(pathlib.PosixPath):
    def open(self, mode='r', *a, **k):
        if 'w' in mode or 'x' in mode or 'a' in mode:
            if FAULT.kind == 'open':
                FAULT.fired += 1
                raise OSError(errno.EACCES, 'Permission denied (injected)')
            return FaultyFile(super().open(mode, *a, **k))
        return super().open(mode, *a, **k)


import enum
import uuid


class ModelEnum(str, enum.Enum):
    # model names may be Enum members (the store uses .value)
    E = 'me'


PID_UUID = uuid.UUID('12345678-1234-5678-1234-567812345678')


def decode_name(x):
    return ModelEnum.E if x == '<enum:me>' else x


def decode_pid(x):
    return PID_UUID if x == '<uuid>' else x


class Ctx:
    def __init__(self, model_name, pipeline_id):
        self.model_name = decode_name(model_name)
        self.pipeline_id = decode_pid(pipeline_id)


def drive(coro):
    try:
        coro.send(None)
    except StopIteration as st:
        return st.value
    raise RuntimeError('store coroutine suspended')


class StoreHarness:
    """executes ops against the real store and the model; returns a violation string or None"""

    def __init__(self):
        from ml_pipeline_engine.artifact_store.store import filesystem as fsmod
        from ml_pipeline_engine.artifact_store import errors as E
        from ml_pipeline_engine.artifact_store.enums import DataFormat
        self.fsmod = fsmod
        self.E = E
        self.DataFormat = DataFormat
        self.dir = tempfile.mkdtemp(prefix='verif_c18_')
        self.orig_path = fsmod.Path
        fsmod.Path = FaultyPath
        self.ctxs = []
        self.stores = []
        self.model = {}
        self.ops = []
        self.stats = {'ops': 0, 'faults_fired': 0, 'alias_pairs': 0, 'write_points': 0}
        warnings.simplefilter('ignore')

    def close(self):
        self.fsmod.Path = self.orig_path
        FAULT.kind = None
        shutil.rmtree(self.dir, ignore_errors=True)

    # -- ops -------------------------------------------------------------------------------
    def step(self, op):
        self.ops.append(op)
        self.stats['ops'] += 1
        return getattr(self, 'op_' + op[0])(*op[1:])

    def op_ctx(self, model_name, pipeline_id):
        # the key of the model is what ends up in the path: '<enum:me>' is the Enum member with value 'me', which
        # shares its directory with the plain string 'me' (the store documents .value)
        m = 'me' if model_name == '<enum:me>' else model_name
        p_ = str(PID_UUID) if pipeline_id == '<uuid>' else pipeline_id
        self.ctxs.append((m, p_))
        self.stores.append(self.fsmod.FileSystemArtifactStore(Ctx(model_name, pipeline_id), self.dir))
        return None

    def _mkey(self, ci, key):
        m, p = self.ctxs[ci]
        return (m, str(p), key)

    def _save(self, ci, key, value, fmt):
        f = self.DataFormat(fmt)
        return drive(self.stores[ci].save(key, value, fmt=f))

    def _load(self, ci, key):
        return drive(self.stores[ci].load(key))

    def _alias_prone(self, ci, key):
        m, p = self.ctxs[ci][0], str(self.ctxs[ci][1])
        for (mm, pp, k) in self.model:
            if (mm, pp) == (m, p) and k != key and (k.startswith(key + '.') or key.startswith(k + '.')
                                                      or any(c in key for c in '*?[') or any(c in k for c in '*?[')):
                return True
        return False

    def op_save(self, ci, key, value, fmt):
        ci %= len(self.stores)
        mk = self._mkey(ci, key)
        if self._alias_prone(ci, key):
            self.stats['alias_pairs'] += 1
        try:
            self._save(ci, key, value, fmt)
        except self.E.ArtifactAlreadyExists:
            if mk not in self.model:
                return f'save({key!r}) raised ArtifactAlreadyExists but the key was never saved in {self.ctxs[ci]}'
            return self._check_load(ci, key, 'after a rejected second save')
        except Exception as ex:  # noqa: BLE001
            return f'save({key!r}, fmt={fmt}) raised {type(ex).__name__}: {ex}'
        if mk in self.model:
            return f'second save({key!r}) succeeded, expected ArtifactAlreadyExists'
        self.model[mk] = value
        return self._check_load(ci, key, 'right after save')

    def _check_load(self, ci, key, when):
        mk = self._mkey(ci, key)
        try:
            got = self._load(ci, key)
        except self.E.ArtifactDoesNotExist:
            if mk in self.model:
                return f'load({key!r}) raised ArtifactDoesNotExist {when}, but it was saved'
            return None
        except Exception as ex:  # noqa: BLE001
            return f'load({key!r}) raised {type(ex).__name__}: {ex} {when}'
        if mk not in self.model:
            return f'load({key!r}) returned {got!r} {when}, but that key was never saved (aliasing)'
        if got != self.model[mk] or type(got) is not type(self.model[mk]):
            return f'load({key!r}) returned {got!r}, saved {self.model[mk]!r} {when}'
        return None

    def op_load(self, ci, key):
        ci %= len(self.stores)
        return self._check_load(ci, key, '')

    def op_save_faults(self, ci, key, value, fmt):
        """fail the save at open() and then at every write call once; afterwards the key must be absent and
        a clean save must succeed"""
        ci %= len(self.stores)
        mk = self._mkey(ci, key)
        if mk in self.model:
            return self.op_save(ci, key, value, fmt)
        kinds = [('open', 0)]
        k = 0
        while True:
            plan = kinds.pop(0) if kinds else ('write', k)
            FAULT.kind, FAULT.at, FAULT.writes = plan[0], plan[1], 0
            fired_before = FAULT.fired
            try:
                self._save(ci, key, value, fmt)
                failed = False
            except self.E.ArtifactAlreadyExists:
                FAULT.kind = None
                return (f'after a failed save the key {key!r} appears saved: retry raised ArtifactAlreadyExists '
                        f'(fault {plan})')
            except Exception:  # noqa: BLE001
                failed = True
            finally:
                FAULT.kind = None
            fired = FAULT.fired > fired_before
            if fired:
                self.stats['faults_fired'] += 1
            if not failed:
                if fired:
                    return f'save({key!r}) reported success although the write failed (fault {plan})'
                # no write index k left: the save went through cleanly
                self.model[mk] = value
                self.stats['write_points'] += k
                return self._check_load(ci, key, 'after the clean save that followed the injected failures')
            if not fired:
                return f'save({key!r}, fmt={fmt}) raised without an injected fault'
            v = self._check_load(ci, key, f'after a failed save (fault {plan})')
            if v:
                return v
            if plan[0] == 'write':
                k += 1
            if k > 400:
                return None


def run_ops(ops):
    h = StoreHarness()
    try:
        for i, op in enumerate(ops):
            v = h.step(tuple(op))
            if v:
                return {'step': i, 'op': list(op), 'what': v}, h.stats
        return None, h.stats
    finally:
        h.close()


# -------------------------------------------------------------------------------------------
# Hypothesis machine
# -------------------------------------------------------------------------------------------
def build_machine():
    from hypothesis import strategies as st
    from hypothesis.stateful import RuleBasedStateMachine, initialize, precondition, rule

    alphabet = 'ab.*?[]-_x1'
    raw_key = st.text(alphabet=alphabet, min_size=1, max_size=4).filter(lambda s: s not in ('.', '..'))
    json_val = st.recursive(
        st.one_of(st.none(), st.booleans(), st.integers(-5, 5), st.text(alphabet='ab é', max_size=3)),
        lambda ch: st.one_of(st.lists(ch, max_size=2), st.dictionaries(st.text(alphabet='kq', max_size=2), ch, max_size=2)),
        max_leaves=4,
    )
    pickle_val = st.one_of(json_val, st.tuples(st.integers(0, 3), st.text(max_size=2)), st.binary(max_size=4),
                           st.frozensets(st.integers(0, 3), max_size=2))
    names = st.sampled_from(['m', 'm2', 'm.x', 'me', '<enum:me>'])
    pids = st.sampled_from(['p', 'p2', 'p.1', 7, '<uuid>'])

    class Machine(RuleBasedStateMachine):
        EXAMPLES = 0
        LAST = None

        def __init__(self):
            super().__init__()
            Machine.EXAMPLES += 1
            self.h = StoreHarness()
            self.keys = []
            Machine.LAST = self.h

        @initialize(m=names, p=pids)
        def first_ctx(self, m, p):
            self.h.step(('ctx', m, p))

        @rule(m=names, p=pids)
        @precondition(lambda self: len(self.h.stores) < 3)
        def new_ctx(self, m, p):
            self.h.step(('ctx', m, p))

        def _key(self, data, base):
            if self.keys and data.draw(st.booleans()):
                k = data.draw(st.sampled_from(self.keys))
                how = data.draw(st.sampled_from(['same', 'dot', 'prefix', 'ext', 'star']))
                if how == 'dot':
                    k = k + '.' + base
                elif how == 'prefix' and len(k) > 1:
                    k = k[:-1].rstrip('.') or k
                elif how == 'ext':
                    k = k + data.draw(st.sampled_from(['.pickle', '.json']))
                elif how == 'star':
                    k = k[:1] + '*'
                if k in ('.', '..') or not k:
                    k = base
                return k
            return base

        def _fail(self, v):
            if v:
                raise AssertionError(v)

        @rule(data=st.data(), ci=st.integers(0, 2), base=raw_key, fmt=st.sampled_from(['pickle', 'json']))
        def save(self, data, ci, base, fmt):
            key = self._key(data, base)
            value = data.draw(json_val if fmt == 'json' else pickle_val)
            self.keys.append(key)
            self._fail(self.h.step(('save', ci, key, value, fmt)))

        @rule(data=st.data(), ci=st.integers(0, 2), base=raw_key)
        def load(self, data, ci, base):
            self._fail(self.h.step(('load', ci, self._key(data, base))))

        @rule(data=st.data(), ci=st.integers(0, 2), base=raw_key, fmt=st.sampled_from(['pickle', 'json']))
        def save_faults(self, data, ci, base, fmt):
            key = self._key(data, base)
            value = data.draw(json_val if fmt == 'json' else pickle_val)
            self.keys.append(key)
            self._fail(self.h.step(('save_faults', ci, key, value, fmt)))

        def teardown(self):
            Machine.STATS_SINK(self.h)
            self.h.close()

    return Machine


def jsonable(ops):
    def conv(v):
        if isinstance(v, (bytes, frozenset, tuple)):
            return {'__py__': repr(v)}
        if isinstance(v, list):
            return [conv(x) for x in v]
        if isinstance(v, dict):
            return {k: conv(x) for k, x in v.items()}
        return v
    return [[conv(x) for x in op] for op in ops]


def unjson(ops):
    def conv(v):
        if isinstance(v, dict) and set(v) == {'__py__'}:
            return eval(v['__py__'], {'frozenset': frozenset})  # noqa: S307 - our own replay files
        if isinstance(v, list):
            return [conv(x) for x in v]
        if isinstance(v, dict):
            return {k: conv(x) for k, x in v.items()}
        return v
    return [tuple(conv(x) for x in op) for op in ops]


def ops_digest(ops):
    import hashlib
    return hashlib.sha1(json.dumps(jsonable(ops), sort_keys=True, default=str).encode()).hexdigest()[:16]
