"""Determinism self-test: the event-log digest of a seeded case must be a pure function of
(seed, PYTHONHASHSEED, code) - across fresh interpreters, worker counts, case order and allocation
history.  Exit 0 ok, 2 mismatch (harness error, never a VIOLATION)."""
from __future__ import annotations

import json
import os
import random
import subprocess
import sys

VERIF = os.path.dirname(os.path.dirname(os.path.abspath(__file__)))


def digests(prop_id, seed, indices, warmup=0):
    sys.path.insert(0, os.environ.get('VERIF_REPO', '/repo'))
    from . import props as P
    from .props import h64, build_sched, names_of
    from .harness import run_case
    from . import materialize as mat
    mat.setup_registries('both')
    prop = P.get_prop(prop_id, 'quick')
    out = {}
    for j in list(range(10 ** 6, 10 ** 6 + warmup)) + list(indices):
        rng = random.Random(h64(seed, prop_id, j))
        case = prop.gen(rng)
        ds = []
        if hasattr(prop, 'digest_case'):
            ds = prop.digest_case(case)
        else:
            for sd in case['scheds']:
                sched, set_seed = build_sched(sd, names_of(case['spec']))
                rec = run_case(case, sched, set_seed=set_seed)
                ds.append(rec.digest)
        if j < 10 ** 6:
            out[j] = ds
    return out


def baton_digest(n):
    """digest of n C17 cases x 6 mode vectors with the REAL thread pool under baton control"""
    import hashlib
    sys.path.insert(0, os.environ.get('VERIF_REPO', '/repo'))
    from . import props as P
    from . import materialize as mat
    from .props import h64, build_sched, names_of
    from .harness import run_case
    mat.setup_registries('baton-thread')
    prop = P.get_prop('C17')
    out = []
    for j in range(n):
        rng = random.Random(h64(5, 'C17', j))
        case = prop.gen(rng)
        for vec, sd in zip(P.MODE_VECTORS, case['mode_seeds']):
            spec = prop.variant(case['spec'], vec, sd)
            c2 = dict(case, spec=spec, registry='baton-thread')
            sched, ss = build_sched(dict(case['scheds'][0]), names_of(spec))
            out.append(run_case(c2, sched, set_seed=ss).digest)
    return hashlib.sha1(''.join(out).encode()).hexdigest()


def child(argv):
    if argv[0] == '--baton':
        print(json.dumps({'baton': baton_digest(int(argv[1]))}))
        return
    prop_id, seed, lo, hi, step, warmup, order = argv[0], int(argv[1]), int(argv[2]), int(argv[3]), int(argv[4]), \
        int(argv[5]), argv[6]
    idx = list(range(lo, hi, step))
    if order == 'rev':
        idx.reverse()
    json.dump(digests(prop_id, seed, idx, warmup), sys.stdout)


def spawn(prop_id, seed, lo, hi, step, warmup, order, hashseed):
    env = dict(os.environ, PYTHONHASHSEED=str(hashseed), PYTHONPATH=VERIF + os.pathsep + os.environ.get('VERIF_REPO', '/repo'),
               PYTHONDONTWRITEBYTECODE='1')
    return subprocess.Popen([sys.executable, '-m', 'verifsim.selftest', '--child', prop_id, str(seed), str(lo), str(hi),
                             str(step), str(warmup), order], env=env, cwd=VERIF, stdout=subprocess.PIPE, text=True)


def main():
    if len(sys.argv) > 1 and sys.argv[1] == '--child':
        return child(sys.argv[2:])
    n = int(os.environ.get('VERIF_SELFTEST_N', '400'))
    seed = int(os.environ.get('VERIF_SEED', '0'))
    props = sys.argv[1:] or ['C01']
    bad = 0
    total = 0
    for prop_id in props:
        for hs in (0, 3):
            a = [spawn(prop_id, seed, 0, n, 1, 0, 'fwd', hs)]
            b = [spawn(prop_id, seed, w, n, 8, 0, 'fwd', hs) for w in range(8)]
            c = [spawn(prop_id, seed, 0, n, 1, 150, 'rev', hs)]
            res = []
            for group in (a, b, c):
                d = {}
                for p in group:
                    so, _ = p.communicate(timeout=900)
                    if p.returncode != 0:
                        print(f'selftest child failed ({prop_id})', file=sys.stderr)
                        return 2
                    d.update(json.loads(so))
                res.append(d)
            for j in res[0]:
                total += 1
                if not (res[0][j] == res[1].get(j) == res[2].get(j)):
                    bad += 1
                    if bad <= 5:
                        print(f'DETERMINISM MISMATCH prop={prop_id} hashseed={hs} case={j}', file=sys.stderr)
        # informational: does the hash seed matter at all?
    # real thread pool under baton control: 3 fresh interpreters must agree
    env = dict(os.environ, PYTHONHASHSEED='1', PYTHONPATH=VERIF + os.pathsep + os.environ.get('VERIF_REPO', '/repo'),
               PYTHONDONTWRITEBYTECODE='1')
    nb = max(20, n // 5)
    ps = [subprocess.Popen([sys.executable, '-m', 'verifsim.selftest', '--child', '--baton', str(nb)], env=env, cwd=VERIF,
                           stdout=subprocess.PIPE, text=True) for _ in range(3)]
    ds = []
    for p_ in ps:
        so, _ = p_.communicate(timeout=900)
        if p_.returncode != 0:
            print('selftest baton child failed', file=sys.stderr)
            return 2
        ds.append(json.loads(so)['baton'])
    if len(set(ds)) != 1:
        print(f'DETERMINISM MISMATCH in baton mode: {ds}', file=sys.stderr)
        bad += 1
    print(f'selftest-determinism (baton, real ThreadPoolExecutor): {nb * 6} runs x 3 interpreters: '
          f'{"identical" if len(set(ds)) == 1 else "MISMATCH"}')
    print(f'selftest-determinism: {total} (property, hashseed, case) triples x 3 regimes '
          f'(1 proc / 8 procs / reversed after 150 warm-up cases): {bad} mismatches')
    return 2 if bad else 0


if __name__ == '__main__':
    sys.exit(main())
