"""Orchestration: seeded workers (one fresh interpreter each, pinned PYTHONHASHSEED), aggregation,
evidence, replay files, known findings.

exit 0: property held on everything explored (KNOWN-FINDING lines allowed)
exit 1: VIOLATION property=<id> replay=<path>
exit 2: harness error (never a VIOLATION, never 0)
"""
from __future__ import annotations

import argparse
import faulthandler
import json
import os
import random
import shutil
import subprocess
import sys
import tempfile
import time
import traceback

VERIF = os.path.dirname(os.path.dirname(os.path.abspath(__file__)))
NWORKERS = int(os.environ.get('VERIF_WORKERS', '16'))
HASHSEEDS = 8

TIERS = {
    # budget seconds of search per worker, hard cap on cases per worker
    'quick': {'budget': 20.0, 'max_cases': 4000},
    'thorough': {'budget': 420.0, 'max_cases': 400000},
}


def repo_path():
    return os.environ.get('VERIF_REPO', '/repo')


def load_known():
    p = os.path.join(VERIF, 'known_findings.json')
    if not os.path.exists(p):
        return []
    with open(p) as f:
        return json.load(f).get('entries', [])


# ---------------------------------------------------------------------------------------------
def worker(args):
    sys.path.insert(0, repo_path())
    faulthandler.enable()
    faulthandler.dump_traceback_later(args.budget * 3 + 120, exit=True)
    from . import props as P
    from .props import Stats, h64
    from .shrink import shrink
    from . import materialize as mat
    mat.setup_registries(args.registry)
    prop = P.get_prop(args.prop, args.tier)
    stats = Stats()
    out = {'violations': [], 'error': None, 'cases': 0}
    t0 = time.monotonic()
    prop.deadline = t0 + args.budget
    j = args.widx
    n = 0
    try:
        while n < args.max_cases and time.monotonic() - t0 < args.budget:
            rs = h64(args.seed, args.prop, j)
            rng = random.Random(rs)
            case = prop.gen(rng)
            case['case_index'] = j
            found = prop.evaluate(case, stats)
            if len(stats.samples) < 2 and not found:
                stats.samples.append(prop.sample(case))
            for f in found[:1]:
                if not getattr(prop, 'no_shrink', False):
                    f = shrink(prop, f, budget_s=10.0 if args.tier == 'quick' else 20.0)
                f['seed'] = args.seed
                f['case_index'] = j
                f['hashseed'] = os.environ.get('PYTHONHASHSEED')
                f['registry'] = args.registry
                out['violations'].append(f)
            if len(out['violations']) >= 2:
                break
            j += args.nworkers
            n += 1
    except BaseException:  # noqa: BLE001
        out['error'] = traceback.format_exc()
        try:
            out['error_case'] = case
        except Exception:  # noqa: BLE001
            pass
    out['cases'] = n
    out['stats'] = stats.dump()
    out['wall'] = time.monotonic() - t0
    with open(args.out, 'w') as f:
        json.dump(out, f, default=str)
    return 0


# ---------------------------------------------------------------------------------------------
def run_replay(prop_id, path, tier='quick'):
    sys.path.insert(0, repo_path())
    from . import props as P
    from . import materialize as mat
    with open(path) as f:
        rp = json.load(f)
    want_hs = rp.get('hashseed')
    if want_hs is not None and os.environ.get('PYTHONHASHSEED') != str(want_hs):
        env = dict(os.environ, PYTHONHASHSEED=str(want_hs))
        return subprocess.call([sys.executable, '-m', 'verifsim.runner', prop_id, '--replay', path], env=env,
                               cwd=VERIF)
    mat.setup_registries(rp.get('registry', 'both'))
    prop = P.get_prop(rp.get('property', prop_id), tier)
    found = prop.evaluate(rp['case'], None)
    hit = [f for f in found if f['clause'] == rp['clause']]
    if hit:
        same = hit[0].get('log_digest') == rp.get('log_digest')
        print(f'VIOLATION property={prop.id} replay={path}')
        print(f'  clause={rp["clause"]} detail={hit[0]["detail"]}')
        print(f'  event-log digest identical to the recorded one: {same}')
        return 1
    print(f'replay {path}: clause {rp["clause"]} did not reproduce (other findings: {[f["clause"] for f in found]})')
    return 0


def check_known(prop_id):
    """re-run the witness of every recorded finding of this property.
    finding still failing -> KNOWN-FINDING line; fixed entry failing again -> regression (VIOLATION)"""
    lines = []
    stale = []
    regressions = []
    todo = []
    for e in load_known():
        if prop_id not in e.get('properties', []):
            continue
        w = os.path.join(VERIF, e['witness'])
        with open(w) as f:
            wprop = json.load(f).get('property')
        if wprop != prop_id:
            continue
        todo.append((e, w))

    def replay(item):
        return subprocess.run([sys.executable, '-m', 'verifsim.runner', prop_id, '--replay', item[1]],
                              env=dict(os.environ), cwd=VERIF, capture_output=True, text=True, timeout=300)

    from concurrent.futures import ThreadPoolExecutor
    with ThreadPoolExecutor(max_workers=8) as pool:
        outs = list(pool.map(replay, todo))
    for (e, w), r in zip(todo, outs):
        if r.returncode not in (0, 1):
            raise RuntimeError(f'witness replay failed: {r.stdout}\n{r.stderr}')
        if e.get('status') == 'finding':
            if r.returncode == 1:
                lines.append(f'KNOWN-FINDING: property={prop_id} {e["id"]} {e["what"]} (witness {e["witness"]}; '
                             f'carve-out: {e.get("carve_out")})')
            else:
                stale.append(e['id'])
        elif r.returncode == 1:
            regressions.append((e, w))
    return lines, stale, regressions


# ---------------------------------------------------------------------------------------------
def orchestrate(prop_id, tier, seed):
    sys.path.insert(0, repo_path())
    from . import props as P
    from .evidence import write_evidence
    t0 = time.time()
    cfg = dict(TIERS[tier])
    if os.environ.get('VERIF_BUDGET_S'):
        cfg['budget'] = float(os.environ['VERIF_BUDGET_S'])
    prop = P.get_prop(prop_id, tier)
    cfg['budget'] *= getattr(prop, 'budget_scale', 1.0)
    known_lines, stale, regressions = check_known(prop_id)
    tmp = tempfile.mkdtemp(prefix=f'verif_{prop_id}_')
    procs = []
    try:
        registries = prop.registry_states(NWORKERS)
        for w in range(NWORKERS):
            outp = os.path.join(tmp, f'w{w}.json')
            env = dict(os.environ)
            env['PYTHONHASHSEED'] = str((seed + w) % HASHSEEDS)
            env['PYTHONPATH'] = VERIF + os.pathsep + repo_path()
            env['PYTHONDONTWRITEBYTECODE'] = '1'
            cmd = [sys.executable, '-m', 'verifsim.runner', prop_id, '--worker', '--tier', tier, '--seed', str(seed),
                   '--widx', str(w), '--nworkers', str(NWORKERS), '--budget', str(cfg['budget']),
                   '--max-cases', str(cfg['max_cases']), '--out', outp, '--registry', registries[w]]
            procs.append((w, outp, subprocess.Popen(cmd, env=env, cwd=VERIF, stdout=subprocess.PIPE,
                                                    stderr=subprocess.PIPE, text=True)))
        results = []
        harness_errors = []
        deadline = time.time() + cfg['budget'] * 3 + 180
        for w, outp, p in procs:
            try:
                so, se = p.communicate(timeout=max(1.0, deadline - time.time()))
            except subprocess.TimeoutExpired:
                p.kill()
                so, se = p.communicate()
                harness_errors.append(f'worker {w} timed out\n{se[-2000:]}')
                continue
            if p.returncode != 0 or not os.path.exists(outp):
                harness_errors.append(f'worker {w} exit {p.returncode}\n{se[-3000:]}')
                continue
            with open(outp) as f:
                r = json.load(f)
            r['hashseed'] = (seed + w) % HASHSEEDS
            r['registry'] = registries[w]
            if r.get('error'):
                harness_errors.append(f'worker {w}: {r["error"]}\ncase: {json.dumps(r.get("error_case"))[:3000]}')
            results.append(r)
    finally:
        for _, _, p in procs:
            if p.poll() is None:
                p.kill()
        shutil.rmtree(tmp, ignore_errors=True)

    violations = [v for r in results for v in r['violations']]
    rdir = os.environ.get('VERIF_REPLAY_DIR') or os.path.join(VERIF, 'replays')
    paths = []
    if violations:
        os.makedirs(rdir, exist_ok=True)
        for i, v in enumerate(violations):
            path = os.path.join(rdir, f'{prop_id}_{tier}_s{seed}_{v["case_index"]}_{v["clause"]}.json')
            v['replay_cmd'] = f'cd /verif && scripts/check {prop_id} --replay {path}'
            with open(path, 'w') as f:
                json.dump(v, f, indent=1, default=str)
            paths.append(path)
    wall = time.time() - t0
    if results and not os.environ.get('VERIF_NO_EVIDENCE'):   # sensitivity runs against scratch copies keep evidence intact
        write_evidence(prop, tier, seed, results, violations + [r[0] for r in regressions], wall, known_lines,
                       harness_errors)
    for line in known_lines:
        print(line)
    for s in stale:
        print(f'note: recorded finding {s} no longer reproduces on this tree')
    if harness_errors:
        for h in harness_errors[:3]:
            print('HARNESS-ERROR:', h, file=sys.stderr)
        if not violations:
            return 2
    tot = sum(r['stats']['evaluations'] for r in results)
    print(f'{prop_id} [{tier}] seed={seed}: {sum(r["cases"] for r in results)} cases, {tot} simulated runs, '
          f'{len(violations)} violations, {wall:.1f}s')
    for v, path in zip(violations, paths):
        print(f'VIOLATION property={prop_id} replay={path}')
        print(f'  clause={v["clause"]} detail={v["detail"][:300]}')
    for e, w in regressions:
        print(f'VIOLATION property={prop_id} replay={w}')
        print(f'  regression of repaired defect {e["id"]} ({e.get("commit")}): {e["what"]}')
    return 1 if (violations or regressions) else 0


def main(argv=None):
    ap = argparse.ArgumentParser()
    ap.add_argument('prop')
    ap.add_argument('--tier', default=os.environ.get('VERIF_TIER', 'quick'))
    ap.add_argument('--seed', type=int, default=int(os.environ.get('VERIF_SEED', '0')))
    ap.add_argument('--replay')
    ap.add_argument('--worker', action='store_true')
    ap.add_argument('--widx', type=int, default=0)
    ap.add_argument('--nworkers', type=int, default=1)
    ap.add_argument('--budget', type=float, default=10.0)
    ap.add_argument('--max-cases', type=int, default=1000)
    ap.add_argument('--out')
    ap.add_argument('--registry', default='both')
    args = ap.parse_args(argv)
    if args.tier not in TIERS:
        args.tier = 'quick'
    if args.worker:
        return worker(args)
    if args.replay:
        return run_replay(args.prop, args.replay, args.tier)
    try:
        return orchestrate(args.prop, args.tier, args.seed)
    except Exception:  # noqa: BLE001
        traceback.print_exc()
        return 2


if __name__ == '__main__':
    sys.exit(main())
