"""Evidence file writer (schema: /root/.vp/EVIDENCE.schema.json)."""
from __future__ import annotations

import json
import os

VERIF = os.path.dirname(os.path.dirname(os.path.abspath(__file__)))


def _merge(dicts):
    out = {}
    for d in dicts:
        for k, v in d.items():
            if k.startswith('max_'):
                out[k] = max(out.get(k, 0), v)
            else:
                out[k] = out.get(k, 0) + v
    return dict(sorted(out.items()))


def write_evidence(prop, tier, seed, results, violations, wall, known_lines, harness_errors):
    st = [r['stats'] for r in results]
    evaluations = sum(s['evaluations'] for s in st)
    nontrivial = set()
    distinct = set()
    for s in st:
        nontrivial.update(s['nontrivial'])
        distinct.update(s['distinct'])
    samples = []
    for s in st:
        for x in s['samples']:
            if len(samples) < 3:
                samples.append(x)
    search_wall = max([r.get('wall', 0.0) for r in results] + [1e-9])
    cov = {
        'evaluations': evaluations,
        'distinct_nontrivial': len(nontrivial),
        'rule': prop.rule,
        'samples': samples or [{'note': 'no sample recorded'}],
        'cases': sum(s['cases'] for s in st),
        'distinct_executions': len(distinct),
        'distinct_measure': 'distinct (case digest, sha256 of event log + decision list)',
        'runs_per_hour': int(evaluations / search_wall * 3600),
        'seeds': {'VERIF_SEED': seed, 'workers': len(results),
                  'pythonhashseeds': sorted({r['hashseed'] for r in results}),
                  'per_run_seed': 'blake2b(VERIF_SEED, property, case index)'},
        'simulated_seconds': round(sum(s['vtime'] for s in st), 3),
        'clock_ticks': sum(s['ticks'] for s in st),
        'loop_handles_executed': sum(s['handles'] for s in st),
        'fault_kinds_fired': _merge(s['fault_hits'] for s in st),
        'scheduler_policies': _merge(s['policies'] for s in st),
        'construct_classes': _merge(s['classes'] for s in st),
        'reach_probes': _merge(s['probes'] for s in st),
        'inconclusive_runs': sum(s['inconclusive'] for s in st),
        'registry_states': _merge({r['registry']: 1} for r in results),
        'components': prop.components,
        'excluded_classes': getattr(prop, 'excluded_note', EXCLUDED_NOTE),
        'known_findings_reported': known_lines,
        'harness_errors': len(harness_errors),
        'exhaustive': False,
    }
    cov.update(getattr(prop, 'extra_coverage', lambda res: {})(results))
    ev = {
        'property_id': prop.id,
        'tier': tier,
        'seed': int(seed),
        'level': prop.level,
        'coverage': cov,
        'assumptions': [
            'node bodies are deterministic functions of their arguments and the fault plan',
            'the ready queue of the loop is FIFO (asyncio contract); only arrivals of external completions, '
            'clock advances and injected faults are scheduled',
            'executor jobs run at submission; genuine data races between worker threads are out of scope',
            'programs are sampled from the claimed construct classes (<= 14 nodes); a clean batch is evidence, '
            'not proof',
        ],
        'wall_s': round(wall, 2),
        'violations': len(violations),
    }
    os.makedirs(os.path.join(VERIF, 'evidence'), exist_ok=True)
    with open(os.path.join(VERIF, 'evidence', f'{prop.id}.json'), 'w') as f:
        json.dump(ev, f, indent=1, default=str)


EXCLUDED_NOTE = 'see known_findings.json: programs matching a carve-out predicate are not generated'
