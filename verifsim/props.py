"""Per-property checks: how cases are generated, run and judged."""
from __future__ import annotations

import copy
import hashlib
import json
import random

from . import gen, oracles
from .harness import DONE, QUIESCENT, run_case
from .oracles import Violation
from .reference import Reference, declared_edges, reachable
from .sim import BarrierScheduler, FifoScheduler, ScriptedScheduler, make_scheduler

# construct classes currently claimed (extended as defects are repaired); see DESIGN 4.2 / 7
CLASSES_ALL = ['plain', 'rec', 'switch', 'switch_unk', 'switch_shared', 'oneof', 'oneof_nested']


def h64(*parts) -> int:
    return int.from_bytes(hashlib.blake2b(repr(parts).encode(), digest_size=8).digest(), 'big')


def case_digest(case) -> str:
    c = {k: v for k, v in case.items() if k not in ('scheds',)}
    return hashlib.sha1(json.dumps(c, sort_keys=True, default=str).encode()).hexdigest()[:16]


def build_sched(sd, names):
    """schedule descriptor -> (scheduler, set_seed)"""
    if 'script' in sd:
        return ScriptedScheduler(sd['script']), sd.get('set_seed', 0)
    if sd.get('fifo'):
        return FifoScheduler(), sd.get('set_seed', 0)
    if 'barrier' in sd:
        return BarrierScheduler(sd['barrier']), sd.get('set_seed', 0)
    rng = random.Random(sd['seed'])
    sched, params = make_scheduler(rng, names)
    sd['policy'] = params.get('policy')
    return sched, sd.get('set_seed', sd['seed'] & 0xffff)


def names_of(spec):
    return [n['name'] for n in spec['nodes']]


class Stats:
    def __init__(self):
        self.evaluations = 0
        self.cases = 0
        self.nontrivial = set()
        self.distinct = set()
        self.fault_hits = {}
        self.policies = {}
        self.classes = {}
        self.handles = 0
        self.vtime = 0.0
        self.ticks = 0
        self.probes = {}
        self.inconclusive = 0
        self.samples = []

    def add_run(self, case_d, rec, nontrivial, policy=None, klass=None):
        self.evaluations += 1
        key = h64(case_d, rec.digest)
        self.distinct.add(key)
        if nontrivial:
            self.nontrivial.add(key)
        for k, v in (rec.fault_hits or {}).items():
            self.fault_hits[k] = self.fault_hits.get(k, 0) + v
        if policy:
            self.policies[policy] = self.policies.get(policy, 0) + 1
        if klass:
            self.classes[klass] = self.classes.get(klass, 0) + 1
        self.handles += rec.steps or 0
        self.vtime += rec.vtime or 0.0
        self.ticks += rec.ticks or 0

    def probe(self, name, n=1):
        self.probes[name] = self.probes.get(name, 0) + n

    def dump(self):
        return {
            'evaluations': self.evaluations, 'cases': self.cases,
            'nontrivial': sorted(self.nontrivial), 'distinct': sorted(self.distinct),
            'fault_hits': self.fault_hits, 'policies': self.policies, 'classes': self.classes,
            'handles': self.handles, 'vtime': self.vtime, 'ticks': self.ticks, 'probes': self.probes,
            'inconclusive': self.inconclusive, 'samples': self.samples,
        }


class Prop:
    id = '?'
    level = 'exploration'
    classes = CLASSES_ALL
    faults = True
    k_quick = 3
    k_thorough = 6
    rule = ''
    collaborators = False
    n_max = 10

    def __init__(self, tier='quick', excluded=()):
        self.tier = tier
        self.excluded = set(excluded)

    # ---- generation ------------------------------------------------------------------------
    def k(self):
        return self.k_quick if self.tier == 'quick' else self.k_thorough

    def get_classes(self):
        import os
        env = os.environ.get('VERIF_CLASSES')  # experiments only (class triage); never set by registered commands
        return env.split(',') if env else self.classes

    def gen_spec(self, rng):
        return gen.gen_program(rng, self.get_classes(), faults=self.faults and rng.random() < 0.75, n_max=self.n_max)

    def gen(self, rng):
        spec = self.gen_spec(rng)
        case = {'spec': spec, 'runs': [{'input': gen.gen_input(rng)}], 'mode': 'solo',
                'uuid_seed': rng.randrange(1 << 30)}
        self.decorate(case, rng)
        k = self.k()
        scheds = [{'fifo': True, 'set_seed': rng.randrange(1 << 16)}] if rng.random() < 0.5 else []
        while len(scheds) < k:
            scheds.append({'seed': rng.randrange(1 << 40)})
        case['scheds'] = scheds
        return case

    def decorate(self, case, rng):
        pass

    # ---- evaluation ------------------------------------------------------------------------
    def refs(self, case):
        out = []
        for i, r in enumerate(case['runs']):
            ref = Reference(case['spec'], r['input'], run=i)
            ref.evaluate()
            out.append(ref)
        return out

    def judge(self, case, rec, refs, sd):
        """-> list of Violations (any property); filtered by the caller"""
        vs = oracles.o_termination(case, rec)
        for i, ref in enumerate(refs):
            g, _ = oracles.general(case, rec, ref, i)
            vs += g
        vs += oracles.o_leftover(case, rec, len(refs))
        return vs

    def nontrivial(self, case, rec, refs):
        return rec.max_pending >= 2

    def evaluate(self, case, stats: Stats = None):
        refs = self.refs(case)
        names = names_of(case['spec'])
        cd = case_digest(case)
        found = []
        recs = []
        for si, sd in enumerate(case['scheds']):
            sched, set_seed = build_sched(sd, names)
            rec = run_case(case, sched, set_seed=set_seed, keep_snaps=self.id == 'C07')
            recs.append(rec)
            vs = [v for v in self.judge(case, rec, refs, sd) if self.id in v.props]
            if stats is not None:
                stats.add_run(cd, rec, self.nontrivial(case, rec, refs), sd.get('policy', 'fifo' if sd.get('fifo') else
                                                                                    'scripted'),
                              case['spec'].get('class'))
                self.probes(case, rec, refs, stats)
            for v in vs:
                v.sched = si
                found.append((v, rec))
            if found:
                break
        if not found:
            for v in self.cross(case, recs, refs):
                if self.id in v.props:
                    found.append((v, recs[v.sched] if v.sched is not None else recs[-1]))
        out = []
        for v, rec in found[:1]:
            out.append(self.make_replay(case, v, rec, recs))
        if stats is not None:
            stats.cases += 1
        return out

    def probes(self, case, rec, refs, stats):
        pass

    def cross(self, case, recs, refs):
        return []

    def make_replay(self, case, v, rec, recs):
        rc = copy.deepcopy(case)
        si = v.sched if v.sched is not None else 0
        scheds = []
        for i, sd in enumerate(case['scheds'][:len(recs)]):
            r = recs[i]
            _, set_seed = build_sched(dict(sd), names_of(case['spec']))
            scheds.append({'script': [[p, list(a)] for p, a in r.decisions], 'set_seed': set_seed,
                           'policy': sd.get('policy', 'fifo' if sd.get('fifo') else None)})
        if v.clause not in self.cross_clauses():
            scheds = [scheds[si]]
        rc['scheds'] = scheds
        return {'property': self.id, 'clause': v.clause, 'detail': v.detail, 'case': rc,
                'log_digest': rec.digest, 'status': rec.status, 'outcomes': rec.outcomes}

    def cross_clauses(self):
        return ()

    def registry_states(self, n):
        return ['both'] * n

    def sample(self, case):
        refs = self.refs(case)
        return {'program': case['spec'], 'runs': case['runs'], 'schedules': len(case['scheds']),
                'collaborators': {k: case[k] for k in ('em', 'store') if case.get(k)},
                'reference_outcome': [repr(r.outcome) for r in refs]}

    components = {
        'real': ['PipelineChart', 'DAG', 'DAGRunConcurrentManager', 'DAGNodeStorage', 'AnnotationDAGBuilder/build_dag',
                 'run_node', 'NodeRetryPolicy', 'EventSourceMixin', 'DAGPipelineContext', 'pool registries',
                 'asyncio Task/Future/Condition/Event/sleep/Handle/TimerHandle (CPython 3.12)'],
        'simulated': ['event-loop driver, clock and arrival of external completions (SimLoop)',
                      'thread/process pool (job body runs at submission, completion is a scheduler-owned gate; '
                      'process jobs round-trip through pickle)', 'iteration order of the engine task set (SimSet)'],
        'generated': ['node bodies (pure functions of kwargs + per-attempt fault plan)', 'event managers',
                      'artifact stores'],
    }


# ---------------------------------------------------------------------------------------------
class C01(Prop):
    id = 'C01'
    rule = ('case = (program from the claimed construct classes, input, per-attempt fault plan) run under K '
            'seeded schedules (fifo + random/priority/starve/lifo swarm); oracle = reference outcome + '
            'cross-schedule agreement; non-trivial = at least 2 external completions pending at once; '
            'distinct = distinct (case digest, event-log+decision digest)')
    k_quick = 4
    k_thorough = 9

    def cross(self, case, recs, refs):
        vs = []
        base = None
        for i, rec in enumerate(recs):
            if rec.status != DONE:
                continue
            oc = rec.outcomes[0]
            key = oc if oc[0] == 'value' else ('failure',)
            if base is None:
                base = (i, key)
            elif key != base[1]:
                v = Violation({'C01'}, 'schedule_dependent_outcome',
                              f'schedule {base[0]} gives {base[1]}, schedule {i} gives {key}')
                v.sched = i
                vs.append(v)
                break
        return vs

    def cross_clauses(self):
        return ('schedule_dependent_outcome',)


class C02(Prop):
    id = 'C02'
    rule = ('case = program + input + node failures / None,falsy values / raising or slow event managers and '
            'artifact stores, under K seeded schedules; verdict deadlock = loop idle with no gate or timer '
            'outstanding and the run pending (exact), livelock = step cap; non-trivial = a fault fired or a '
            'completion was released out of FIFO order')
    k_quick = 3
    k_thorough = 6
    collaborators = True

    def decorate(self, case, rng):
        r = rng.random()
        if r < 0.45:
            return
        ems = []
        for _ in range(rng.choice([1, 1, 2])):
            cfg = {}
            if rng.random() < 0.4:
                cfg['slow'] = True
            if rng.random() < 0.5:
                cb = rng.choice(['pipeline_start', 'pipeline_complete', 'node_start', 'node_complete', 'node_complete'])
                cfg['raise_at'] = {cb: rng.randrange(0, 6)}
            ems.append(cfg)
        if rng.random() < 0.7:
            case['em'] = ems
        if rng.random() < 0.6:
            st = {}
            if rng.random() < 0.4:
                st['slow'] = True
            if rng.random() < 0.5:
                st['raise_at'] = rng.randrange(0, 8)
            if rng.random() < 0.3:
                st['write_once'] = True
            case['store'] = st

    def judge(self, case, rec, refs, sd):
        return oracles.o_termination(case, rec)

    def nontrivial(self, case, rec, refs):
        return bool(rec.fault_hits) or rec.out_of_order > 0


class C03(Prop):
    id = 'C03'
    rule = ('every body invocation (node, kwargs digest, attempt) of the engine must be one the reference '
            'predicts: key set and value digests equal the final values of the declared inputs; non-trivial = '
            'a consumer started while another completion was still pending')
    k_quick = 3
    k_thorough = 6

    def nontrivial(self, case, rec, refs):
        return rec.max_pending >= 2 and rec.out_of_order > 0


class C04(Prop):
    id = 'C04'
    rule = ('multiset of engine body invocations <= reference multiset (== on successful runs for required '
            'nodes); non-trivial = program has a node with >= 2 consumers and >= 2 completions pending at once')
    k_quick = 3
    k_thorough = 6

    def nontrivial(self, case, rec, refs):
        cons = {}
        for a, b in declared_edges(case['spec']):
            cons[a] = cons.get(a, 0) + 1
        return rec.max_pending >= 2 and any(c >= 2 for c in cons.values())


class C05(Prop):
    id = 'C05'
    faults = True
    rule = ('programs with 1-4 failing nodes (per-attempt plans incl. BaseException), one-of / recurrent '
            'exhaustion; oracle: verdict and error token vs reference root-cause set; non-trivial = reference '
            'outcome is a failure')

    def gen_spec(self, rng):
        return gen.gen_program(rng, self.get_classes(), faults=True, n_fault_nodes=rng.choice([1, 1, 2, 2, 3, 4]),
                               n_max=self.n_max)

    def nontrivial(self, case, rec, refs):
        return not refs[0].outcome.ok


def depths(spec):
    """longest path from the input node in the declared dependency graph"""
    keep = reachable(spec)
    preds = {}
    for a, b in declared_edges(spec):
        if a in keep and b in keep:
            preds.setdefault(b, set()).add(a)
    memo = {}

    def d(n):
        if n not in memo:
            memo[n] = 0 if not preds.get(n) else 1 + max(d(p) for p in preds[n])
        return memo[n]

    return {n: d(n) for n in keep}


def holdable(n):
    return (n.get('mode') == 'coro' and n.get('gates', 0) >= 1) or n.get('mode') in ('thread', 'process')


class C06(Prop):
    id = 'C06'
    classes = ['plain']
    faults = False
    rule = ('plain-dependency DAGs (random shapes, all execution modes); for every depth d the barrier scheduler '
            'releases everything of depth < d and withholds every holdable node (coroutine with a suspension point, '
            'thread, process) of depth d until the loop is quiescent; every node of depth d must have been started; '
            'non-trivial = a depth with >= 2 withheld nodes; distinct = (program, depth)')

    def gen(self, rng):
        spec = gen.gen_plain(rng, faults=False, n_max=12,
                             profile=rng.choice([gen.MODE_PROFILES[5], gen.MODE_PROFILES[0], gen.MODE_PROFILES[3]]))
        for n in spec['nodes']:
            n.pop('value', None)
        case = {'spec': spec, 'runs': [{'input': gen.gen_input(rng)}], 'mode': 'solo',
                'uuid_seed': rng.randrange(1 << 30)}
        dp = depths(spec)
        by = {}
        for n in spec['nodes']:
            by.setdefault(dp[n['name']], []).append(n)
        scheds = []
        for d in sorted(by):
            if d == 0:
                continue
            hold = [n['name'] for n in by[d] if holdable(n)]
            scheds.append({'barrier': hold, 'depth': d, 'level': [n['name'] for n in by[d]],
                           'set_seed': rng.randrange(1 << 16)})
        if not scheds:
            scheds = [{'barrier': [], 'depth': 0, 'level': [spec['input']]}]
        case['scheds'] = scheds
        return case

    def judge(self, case, rec, refs, sd):
        started = {ev[4] for ev in rec.trace if ev[2] == 'body_start'}
        missing = [n for n in sd['level'] if n not in started]
        if missing:
            return [Violation({'C06'}, 'sibling_not_started',
                              f'depth {sd["depth"]}: with {sd["barrier"]} held open and every shallower node complete, '
                              f'{missing} never started (status {rec.status})')]
        return []

    def nontrivial(self, case, rec, refs):
        return rec.max_pending >= 2


class C09(Prop):
    id = 'C09'
    classes = ['switch', 'switch_unk', 'switch_shared']
    rule = ('programs with named/unnamed, nested, shared switches; labels derived from the input incl. labels '
            'without a case; oracle: executed bodies subset of the reference demanded set, consumer kwargs = '
            'selected case value, unknown label => error result; non-trivial = program has a switch with >= 2 '
            'cases or a case shared with another consumer, and >= 2 completions pending at once')

    def nontrivial(self, case, rec, refs):
        return rec.max_pending >= 2


class C10(Prop):
    id = 'C10'
    classes = ['oneof', 'oneof_nested']
    rule = ('programs with sibling / nested one-ofs, failures at any depth of candidate sub-pipelines, None/falsy '
            'candidates; oracle: invocation multiset vs reference (laziness, containment, winner value), candidate '
            'start order, OneOfDoesNotHaveResultError on exhaustion; non-trivial = some candidate failed before '
            'the winner (or all failed) in the reference')

    def judge(self, case, rec, refs, sd):
        vs = super().judge(case, rec, refs, sd)
        for i, ref in enumerate(refs):
            vs += oracles.o_oneof_order(case, rec, ref, oracles.RunView(rec, i))
        return vs

    def nontrivial(self, case, rec, refs):
        return any(not ok for _, _, tried, _ in refs[0].oneof_log for _, ok in tried)


class C11(Prop):
    id = 'C11'
    classes = ['rec']
    rule = ('one recurrent subgraph over a plain DAG, 0..max+1 requested iterations, default on/off, retries and '
            'failures inside the path; oracle: per-iteration invocation multiset (exact path set re-executed, start '
            'node gets additional_data=data, <= max re-iterations), consumers of the destination only see the final '
            'value / default, RecurrentSubgraphDoesNotHaveResultError otherwise; non-trivial = at least one '
            're-iteration happened')

    def nontrivial(self, case, rec, refs):
        return any(v > 0 for v in refs[0].iterations.values())


class C12(Prop):
    id = 'C12'
    rule = ('retry configurations attempts x delay x exceptions x use_default with random per-attempt outcome '
            'plans on nodes anywhere in the pipeline; oracle: attempt count and identical kwargs (invocation '
            'multiset), virtual-time gap >= delay between attempts, no retry for non-matching / BaseException, '
            'get_default called with the body kwargs; non-trivial = a retry or default fired')

    def gen_spec(self, rng):
        return gen.gen_program(rng, self.get_classes(), faults=True, n_fault_nodes=rng.choice([1, 2, 2, 3, 4]),
                               n_max=self.n_max)

    def nontrivial(self, case, rec, refs):
        h = rec.fault_hits or {}
        return bool(h.get('default_used')) or any(len(e['idxs']) > 1 for e in refs[0].executions)


class C14(Prop):
    id = 'C14'
    rule = ('recording event manager (optionally a second, slow one whose callbacks suspend) on programs with '
            'failures, retries, one-of containment, re-iterations; oracle: well-formedness automaton over the event '
            'word merged with the body trace (DESIGN section 6, C14); non-trivial = a retry, failure or re-iteration '
            'occurred')

    def decorate(self, case, rng):
        ems = [{}]
        if rng.random() < 0.4:
            ems.append({'slow': True})
        if rng.random() < 0.2:
            ems.insert(0, {'slow': True})
        case['em'] = ems

    def judge(self, case, rec, refs, sd):
        vs = oracles.o_termination(case, rec)
        for i, ref in enumerate(refs):
            view = oracles.RunView(rec, i)
            for k in range(len(case.get('em') or ())):
                vs += oracles.o_events(case, rec, ref, view, em_idx=k)
        return vs

    def nontrivial(self, case, rec, refs):
        h = rec.fault_hits or {}
        return any(k.startswith('node_raise') or k == 'next_iteration' for k in h)


class C19(Prop):
    id = 'C19'
    classes = [c for c in CLASSES_ALL if c != 'rec']   # known finding K01
    excluded_note = 'class rec (programs with a RecurrentSubGraph mark): known finding K01'
    rule = ('recording (and, in half of the cases, write-once enforcing) artifact store on programs with shared '
            'nodes; oracle: on successful reference outcomes each executed node is saved exactly once with its final '
            'value, never a Recurrent marker or failure object, and the run outcome still equals the reference; '
            'non-trivial = >= 2 completions pending at once')

    def decorate(self, case, rng):
        case['store'] = {'write_once': rng.random() < 0.5, 'slow': rng.random() < 0.3}

    def judge(self, case, rec, refs, sd):
        vs = oracles.o_termination(case, rec)
        if not case.get('store'):
            return vs
        for i, ref in enumerate(refs):
            vs += oracles.o_store(case, rec, ref, oracles.RunView(rec, i))
        return vs


PROPS = {c.id: c for c in (C01, C02, C03, C04, C05, C06, C09, C10, C11, C12, C14, C19)}


def get_prop(pid, tier='quick'):
    return PROPS[pid](tier)
