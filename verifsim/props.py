"""Per-property checks: how cases are generated, run and judged."""
from __future__ import annotations

import copy
import hashlib
import json
import random

from . import gen, oracles
from .harness import DONE, QUIESCENT, run_case
from .oracles import Violation
from .reference import Reference, declared_edges, reachable
from .sim import BarrierScheduler, FifoScheduler, ScriptedScheduler, make_scheduler

# construct classes currently claimed (extended as defects are repaired); see DESIGN 4.2 / 7
CLASSES_ALL = ['plain', 'rec', 'rec_nested', 'rec_switch', 'rec_oneofc', 'switch', 'switch_unk', 'switch_shared', 'oneof', 'oneof_nested', 'oneof_shared', 'mix_main', 'mix_shared', 'switch_oneof', 'hub', 'nest3', 'corpus']


def h64(*parts) -> int:
    return int.from_bytes(hashlib.blake2b(repr(parts).encode(), digest_size=8).digest(), 'big')


def case_digest(case) -> str:
    c = {k: v for k, v in case.items() if k not in ('scheds',)}
    return hashlib.sha1(json.dumps(c, sort_keys=True, default=str).encode()).hexdigest()[:16]


def build_sched(sd, names):
    """schedule descriptor -> (scheduler, set_seed)"""
    if 'script' in sd:
        return ScriptedScheduler(sd['script']), sd.get('set_seed', 0)
    if sd.get('fifo'):
        return FifoScheduler(), sd.get('set_seed', 0)
    if 'barrier' in sd:
        return BarrierScheduler(sd['barrier']), sd.get('set_seed', 0)
    rng = random.Random(sd['seed'])
    sched, params = make_scheduler(rng, names)
    sd['policy'] = params.get('policy')
    return sched, sd.get('set_seed', sd['seed'] & 0xffff)


def names_of(spec):
    return [n['name'] for n in spec['nodes']]


class Stats:
    def __init__(self):
        self.evaluations = 0
        self.cases = 0
        self.nontrivial = set()
        self.distinct = set()
        self.fault_hits = {}
        self.policies = {}
        self.classes = {}
        self.handles = 0
        self.vtime = 0.0
        self.ticks = 0
        self.probes = {}
        self.inconclusive = 0
        self.samples = []

    def add_run(self, case_d, rec, nontrivial, policy=None, klass=None):
        self.evaluations += 1
        key = h64(case_d, rec.digest)
        self.distinct.add(key)
        if nontrivial:
            self.nontrivial.add(key)
        for k, v in (rec.fault_hits or {}).items():
            self.fault_hits[k] = self.fault_hits.get(k, 0) + v
        if getattr(rec, 'probes', None) is not None:
            self.probes['probed_runs'] = self.probes.get('probed_runs', 0) + 1
            for k, v in rec.probes.items():
                self.probes['engine:' + k] = self.probes.get('engine:' + k, 0) + v
        if policy:
            self.policies[policy] = self.policies.get(policy, 0) + 1
        if klass:
            self.classes[klass] = self.classes.get(klass, 0) + 1
        self.handles += rec.steps or 0
        if (rec.steps or 0) > self.probes.get('max_handles_in_one_run', 0):
            self.probes['max_handles_in_one_run'] = rec.steps
        if (rec.after_done_handles or 0) > self.probes.get('max_handles_after_all_runs_ended', 0):
            self.probes['max_handles_after_all_runs_ended'] = rec.after_done_handles
        if (getattr(rec, 'max_lag', 0) or 0) > self.probes.get('max_handles_from_last_external_event_to_run_end', 0):
            self.probes['max_handles_from_last_external_event_to_run_end'] = rec.max_lag
        self.vtime += rec.vtime or 0.0
        self.ticks += rec.ticks or 0

    def probe(self, name, n=1):
        self.probes[name] = self.probes.get(name, 0) + n

    def dump(self):
        return {
            'evaluations': self.evaluations, 'cases': self.cases,
            'nontrivial': sorted(self.nontrivial), 'distinct': sorted(self.distinct),
            'fault_hits': self.fault_hits, 'policies': self.policies, 'classes': self.classes,
            'handles': self.handles, 'vtime': self.vtime, 'ticks': self.ticks, 'probes': self.probes,
            'inconclusive': self.inconclusive, 'samples': self.samples,
        }


class Prop:
    id = '?'
    level = 'exploration'
    classes = CLASSES_ALL
    faults = True
    k_quick = 3
    k_thorough = 6
    rule = ''
    collaborators = False
    n_max = 10

    def __init__(self, tier='quick', excluded=()):
        self.tier = tier
        self.excluded = set(excluded)

    # ---- generation ------------------------------------------------------------------------
    def k(self):
        return self.k_quick if self.tier == 'quick' else self.k_thorough

    def size(self):
        """upper bound on main nodes per program: deeper in the thorough tier"""
        return self.n_max if self.tier == 'quick' else self.n_max + 4

    def get_classes(self):
        import os
        env = os.environ.get('VERIF_CLASSES')  # experiments only (class triage); never set by registered commands
        return env.split(',') if env else self.classes

    def gen_spec(self, rng):
        return gen.gen_program(rng, self.weighted_classes(), faults=self.faults and rng.random() < 0.75,
                               n_max=self.size())

    def weighted_classes(self):
        # the recurrent and cross-scope classes carry most of the schedule-sensitive behaviour: drawn twice as often
        cl = list(self.get_classes())
        return cl + [c for c in cl if c in ('rec', 'hub', 'nest3')]

    def gen(self, rng):
        spec = self.gen_spec(rng)
        case = {'spec': spec, 'runs': [{'input': gen.gen_input(rng)}], 'mode': 'solo',
                'uuid_seed': rng.randrange(1 << 30)}
        if rng.random() < 0.08:
            case['probe'] = True     # reach measurement: engine DEBUG records counted by template
        self.decorate(case, rng)
        k = self.k()
        scheds = [{'fifo': True, 'set_seed': rng.randrange(1 << 16)}] if rng.random() < 0.5 else []
        while len(scheds) < k:
            scheds.append({'seed': rng.randrange(1 << 40)})
        case['scheds'] = scheds
        return case

    def decorate(self, case, rng):
        pass

    # ---- evaluation ------------------------------------------------------------------------
    def refs(self, case):
        out = []
        for i, r in enumerate(case['runs']):
            ref = Reference(case['spec'], r['input'], run=i)
            ref.evaluate()
            out.append(ref)
        return out

    def judge(self, case, rec, refs, sd):
        """-> list of Violations (any property); filtered by the caller"""
        vs = oracles.o_termination(case, rec)
        for i, ref in enumerate(refs):
            g, _ = oracles.general(case, rec, ref, i)
            vs += g
        vs += oracles.o_leftover(case, rec, len(refs))
        return vs

    def nontrivial(self, case, rec, refs):
        return rec.max_pending >= 2

    def evaluate(self, case, stats: Stats = None):
        refs = self.refs(case)
        names = names_of(case['spec'])
        cd = case_digest(case)
        found = []
        recs = []
        for si, sd in enumerate(case['scheds']):
            sched, set_seed = build_sched(sd, names)
            rec = run_case(case, sched, set_seed=set_seed, keep_snaps=self.id == 'C07')
            recs.append(rec)
            vs = [v for v in self.judge(case, rec, refs, sd) if self.id in v.props]
            if stats is not None:
                stats.add_run(cd, rec, self.nontrivial(case, rec, refs), sd.get('policy', 'fifo' if sd.get('fifo') else
                                                                                    'scripted'),
                              case['spec'].get('class'))
                self.probes(case, rec, refs, stats)
            for v in vs:
                v.sched = si
                found.append((v, rec))
            if found:
                break
        if not found:
            for v in self.cross(case, recs, refs):
                if self.id in v.props:
                    found.append((v, recs[v.sched] if v.sched is not None else recs[-1]))
        out = []
        seen_clauses = set()
        for v, rec in found:
            if v.clause in seen_clauses or len(out) >= 4:
                continue
            seen_clauses.add(v.clause)
            out.append(self.make_replay(case, v, rec, recs))
        if stats is not None:
            stats.cases += 1
        return out

    def probes(self, case, rec, refs, stats):
        pass

    def cross(self, case, recs, refs):
        return []

    def make_replay(self, case, v, rec, recs):
        rc = copy.deepcopy(case)
        si = v.sched if v.sched is not None else 0
        scheds = []
        for i, sd in enumerate(case['scheds'][:len(recs)]):
            r = recs[i]
            _, set_seed = build_sched(dict(sd), names_of(case['spec']))
            scheds.append({'script': [[p, list(a)] for p, a in r.decisions], 'set_seed': set_seed,
                           'policy': sd.get('policy', 'fifo' if sd.get('fifo') else None)})
        if v.clause not in self.cross_clauses():
            scheds = [scheds[si]]
        rc['scheds'] = scheds
        from .materialize import render_source
        try:
            src = render_source(case['spec'])
        except Exception:  # noqa: BLE001 - rendering is a convenience only
            src = None
        tail = [list(ev[:5]) + [repr(ev[5])[:160]] for ev in (rec.trace or [])[-60:]]
        return {'property': self.id, 'clause': v.clause, 'detail': v.detail, 'case': rc,
                'log_digest': rec.digest, 'status': rec.status, 'outcomes': rec.outcomes,
                'rendered_source': src, 'trace_tail': tail,
                'trace_format': '(seq, virtual time, kind, run, node, payload)'}

    def cross_clauses(self):
        return ()

    def registry_states(self, n):
        return ['both'] * n

    def sample(self, case):
        refs = self.refs(case)
        return {'program': case['spec'], 'runs': case['runs'], 'schedules': len(case['scheds']),
                'collaborators': {k: case[k] for k in ('em', 'store') if case.get(k)},
                'reference_outcome': [repr(r.outcome) for r in refs]}

    components = {
        'real': ['PipelineChart', 'DAG', 'DAGRunConcurrentManager', 'DAGNodeStorage', 'AnnotationDAGBuilder/build_dag',
                 'run_node', 'NodeRetryPolicy', 'EventSourceMixin', 'DAGPipelineContext', 'pool registries',
                 'asyncio Task/Future/Condition/Event/sleep/Handle/TimerHandle (CPython 3.12)'],
        'simulated': ['event-loop driver, clock and arrival of external completions (SimLoop)',
                      'thread/process pool (job body runs at submission, completion is a scheduler-owned gate; '
                      'process jobs round-trip through pickle)', 'iteration order of the engine task set (SimSet)'],
        'generated': ['node bodies (pure functions of kwargs + per-attempt fault plan)', 'event managers',
                      'artifact stores'],
    }


# ---------------------------------------------------------------------------------------------
class C01(Prop):
    id = 'C01'
    rule = ('case = (program from the claimed construct classes, input, per-attempt fault plan) run under K '
            'seeded schedules (fifo + random/priority/starve/lifo swarm); oracle = reference outcome + '
            'cross-schedule agreement; non-trivial = at least 2 external completions pending at once; '
            'distinct = distinct (case digest, event-log+decision digest)')
    k_quick = 4
    k_thorough = 9

    def cross(self, case, recs, refs):
        vs = []
        base = None
        for i, rec in enumerate(recs):
            if rec.status != DONE:
                continue
            oc = rec.outcomes[0]
            key = oc if oc[0] == 'value' else ('failure',)
            if base is None:
                base = (i, key)
            elif key != base[1]:
                v = Violation({'C01'}, 'schedule_dependent_outcome',
                              f'schedule {base[0]} gives {base[1]}, schedule {i} gives {key}')
                v.sched = i
                vs.append(v)
                break
        return vs

    def cross_clauses(self):
        return ('schedule_dependent_outcome',)


class C02(Prop):
    id = 'C02'
    rule = ('case = program + input + node failures / None,falsy values / raising or slow event managers and '
            'artifact stores, under K seeded schedules; verdict deadlock = loop idle with no gate or timer '
            'outstanding and the run pending (exact), livelock = step cap; non-trivial = a fault fired or a '
            'completion was released out of FIFO order')
    k_quick = 3
    k_thorough = 6
    collaborators = True

    def decorate(self, case, rng):
        r = rng.random()
        if r < 0.45:
            return
        ems = []
        for _ in range(rng.choice([1, 1, 2])):
            cfg = {}
            if rng.random() < 0.4:
                cfg['slow'] = True
            if rng.random() < 0.5:
                cb = rng.choice(['pipeline_start', 'pipeline_complete', 'node_start', 'node_complete', 'node_complete'])
                cfg['raise_at'] = {cb: rng.randrange(0, 6)}
            ems.append(cfg)
        if rng.random() < 0.7:
            case['em'] = ems
        if rng.random() < 0.6:
            st = {}
            if rng.random() < 0.4:
                st['slow'] = True
            if rng.random() < 0.5:
                st['raise_at'] = rng.randrange(0, 8)
            if rng.random() < 0.3:
                st['write_once'] = True
            case['store'] = st

    def judge(self, case, rec, refs, sd):
        return oracles.o_termination(case, rec)

    def nontrivial(self, case, rec, refs):
        return bool(rec.fault_hits) or rec.out_of_order > 0


class C03(Prop):
    id = 'C03'
    rule = ('every body invocation (node, kwargs digest, attempt) of the engine must be one the reference '
            'predicts: key set and value digests equal the final values of the declared inputs; non-trivial = '
            'a consumer started while another completion was still pending')
    k_quick = 3
    k_thorough = 6

    def nontrivial(self, case, rec, refs):
        return rec.max_pending >= 2 and rec.out_of_order > 0


class C04(Prop):
    id = 'C04'
    rule = ('multiset of engine body invocations <= reference multiset (== on successful runs for required '
            'nodes); non-trivial = program has a node with >= 2 consumers and >= 2 completions pending at once')
    k_quick = 3
    k_thorough = 6

    def decorate(self, case, rng):
        # a suspending on_node_start widens the check-then-mark window of the duplicate-request guard
        if rng.random() < 0.35:
            case['em'] = [{'slow': True}]

    def nontrivial(self, case, rec, refs):
        cons = {}
        for a, b in declared_edges(case['spec']):
            cons[a] = cons.get(a, 0) + 1
        return rec.max_pending >= 2 and any(c >= 2 for c in cons.values())


class C05(Prop):
    id = 'C05'
    faults = True
    rule = ('programs with 1-4 failing nodes (per-attempt plans incl. BaseException), one-of / recurrent '
            'exhaustion; oracle: verdict and error token vs reference root-cause set; non-trivial = reference '
            'outcome is a failure')

    def gen_spec(self, rng):
        return gen.gen_program(rng, self.weighted_classes(), faults=True, n_fault_nodes=rng.choice([1, 1, 2, 2, 3, 4]),
                               n_max=self.size())

    def nontrivial(self, case, rec, refs):
        return not refs[0].outcome.ok


def depths(spec):
    """longest path from the input node in the declared dependency graph"""
    keep = reachable(spec)
    preds = {}
    for a, b in declared_edges(spec):
        if a in keep and b in keep:
            preds.setdefault(b, set()).add(a)
    memo = {}

    def d(n):
        if n not in memo:
            memo[n] = 0 if not preds.get(n) else 1 + max(d(p) for p in preds[n])
        return memo[n]

    return {n: d(n) for n in keep}


def holdable(n):
    return (n.get('mode') == 'coro' and n.get('gates', 0) >= 1) or n.get('mode') in ('thread', 'process')


class C06(Prop):
    id = 'C06'
    classes = ['plain']
    faults = False
    rule = ('plain-dependency DAGs (random shapes, all execution modes); for every depth d the barrier scheduler '
            'releases everything of depth < d and withholds every holdable node (coroutine with a suspension point, '
            'thread, process) of depth d until the loop is quiescent; every node of depth d must have been started; '
            'non-trivial = a depth with >= 2 withheld nodes; distinct = (program, depth)')

    def gen(self, rng):
        spec = gen.gen_plain(rng, faults=False, n_max=12,
                             profile=rng.choice([gen.MODE_PROFILES[5], gen.MODE_PROFILES[0], gen.MODE_PROFILES[3]]))
        for n in spec['nodes']:
            n.pop('value', None)
        case = {'spec': spec, 'runs': [{'input': gen.gen_input(rng)}], 'mode': 'solo',
                'uuid_seed': rng.randrange(1 << 30)}
        dp = depths(spec)
        by = {}
        for n in spec['nodes']:
            by.setdefault(dp[n['name']], []).append(n)
        scheds = []
        for d in sorted(by):
            if d == 0:
                continue
            hold = [n['name'] for n in by[d] if holdable(n)]
            scheds.append({'barrier': hold, 'depth': d, 'level': [n['name'] for n in by[d]],
                           'set_seed': rng.randrange(1 << 16)})
        if not scheds:
            scheds = [{'barrier': [], 'depth': 0, 'level': [spec['input']]}]
        case['scheds'] = scheds
        return case

    def judge(self, case, rec, refs, sd):
        started = {ev[4] for ev in rec.trace if ev[2] == 'body_start'}
        missing = [n for n in sd['level'] if n not in started]
        if missing:
            return [Violation({'C06'}, 'sibling_not_started',
                              f'depth {sd["depth"]}: with {sd["barrier"]} held open and every shallower node complete, '
                              f'{missing} never started (status {rec.status})')]
        return []

    def nontrivial(self, case, rec, refs):
        return rec.max_pending >= 2


class C09(Prop):
    id = 'C09'
    classes = ['switch', 'switch_unk', 'switch_shared', 'mix_main', 'mix_shared', 'switch_oneof', 'hub', 'nest3',
               'rec_switch']
    rule = ('programs with named/unnamed, nested, shared switches; labels derived from the input incl. labels '
            'without a case; oracle: executed bodies subset of the reference demanded set, consumer kwargs = '
            'selected case value, unknown label => error result; non-trivial = program has a switch with >= 2 '
            'cases or a case shared with another consumer, and >= 2 completions pending at once')

    def nontrivial(self, case, rec, refs):
        return rec.max_pending >= 2


class C10(Prop):
    id = 'C10'
    classes = ['oneof', 'oneof_nested', 'oneof_shared', 'mix_main', 'mix_shared', 'switch_oneof', 'hub', 'nest3',
               'rec_oneofc']
    rule = ('programs with sibling / nested one-ofs, failures at any depth of candidate sub-pipelines, None/falsy '
            'candidates; oracle: invocation multiset vs reference (laziness, containment, winner value), candidate '
            'start order, OneOfDoesNotHaveResultError on exhaustion; non-trivial = some candidate failed before '
            'the winner (or all failed) in the reference')

    def judge(self, case, rec, refs, sd):
        vs = super().judge(case, rec, refs, sd)
        for i, ref in enumerate(refs):
            vs += oracles.o_oneof_order(case, rec, ref, oracles.RunView(rec, i))
        return vs

    def nontrivial(self, case, rec, refs):
        return any(not ok for _, _, tried, _ in refs[0].oneof_log for _, ok in tried)


class C11(Prop):
    id = 'C11'
    classes = ['rec', 'rec_nested', 'rec_switch', 'rec_oneofc']
    rule = ('one recurrent subgraph over a plain DAG, 0..max+1 requested iterations, default on/off, retries and '
            'failures inside the path; oracle: per-iteration invocation multiset (exact path set re-executed, start '
            'node gets additional_data=data, <= max re-iterations), consumers of the destination only see the final '
            'value / default, RecurrentSubgraphDoesNotHaveResultError otherwise; non-trivial = at least one '
            're-iteration happened')

    def nontrivial(self, case, rec, refs):
        return any(v > 0 for v in refs[0].iterations.values())


class C12(Prop):
    id = 'C12'
    rule = ('retry configurations attempts x delay x exceptions x use_default with random per-attempt outcome '
            'plans on nodes anywhere in the pipeline; oracle: attempt count and identical kwargs (invocation '
            'multiset), virtual-time gap >= delay between attempts, no retry for non-matching / BaseException, '
            'get_default called with the body kwargs; non-trivial = a retry or default fired')

    def gen_spec(self, rng):
        return gen.gen_program(rng, self.weighted_classes(), faults=True, n_fault_nodes=rng.choice([1, 2, 2, 3, 4]),
                               n_max=self.size())

    def nontrivial(self, case, rec, refs):
        h = rec.fault_hits or {}
        return bool(h.get('default_used')) or any(len(e['idxs']) > 1 for e in refs[0].executions)


class C14(Prop):
    id = 'C14'
    rule = ('recording event manager (optionally a second, slow one whose callbacks suspend) on programs with '
            'failures, retries, one-of containment, re-iterations; oracle: well-formedness automaton over the event '
            'word merged with the body trace (DESIGN section 6, C14); non-trivial = a retry, failure or re-iteration '
            'occurred')

    def decorate(self, case, rng):
        ems = [{}]
        if rng.random() < 0.4:
            ems.append({'slow': True})
        if rng.random() < 0.2:
            ems.insert(0, {'slow': True})
        case['em'] = ems

    def judge(self, case, rec, refs, sd):
        vs = oracles.o_termination(case, rec)
        for i, ref in enumerate(refs):
            view = oracles.RunView(rec, i)
            for k in range(len(case.get('em') or ())):
                vs += oracles.o_events(case, rec, ref, view, em_idx=k)
        if case.get('em'):
            for v in oracles.o_leftover(case, rec, len(refs)):
                if v.clause == 'late_activity' and ' ev_' in ' ' + v.detail:
                    # an event callback after the run (and hence after on_pipeline_complete) has ended
                    v.props.add('C14')
                    v.clause = 'event_after_run_end'
                    vs.append(v)
        return vs

    def nontrivial(self, case, rec, refs):
        h = rec.fault_hits or {}
        return any(k.startswith('node_raise') or k == 'next_iteration' for k in h)


class C19(Prop):
    id = 'C19'
    classes = [c for c in CLASSES_ALL if 'rec' not in c and c != 'corpus']   # known finding K01
    excluded_note = 'class rec (programs with a RecurrentSubGraph mark): known finding K01'
    rule = ('recording (and, in half of the cases, write-once enforcing) artifact store on programs with shared '
            'nodes; oracle: on successful reference outcomes each executed node is saved exactly once with its final '
            'value, never a Recurrent marker or failure object, and the run outcome still equals the reference; '
            'non-trivial = >= 2 completions pending at once')

    def decorate(self, case, rng):
        case['store'] = {'write_once': rng.random() < 0.5, 'slow': rng.random() < 0.3}

    def judge(self, case, rec, refs, sd):
        vs = oracles.o_termination(case, rec)
        if not case.get('store'):
            return vs
        for i, ref in enumerate(refs):
            vs += oracles.o_store(case, rec, ref, oracles.RunView(rec, i))
        return vs


def distinct_inputs(rng, n):
    out = []
    for i in range(n):
        d = gen.gen_input(rng)
        d['rid'] = i
        out.append({'input': d})
    return out


class C07(Prop):
    id = 'C07'
    rule = ('history = 2-4 sequential runs with different inputs on ONE chart object (some runs failing, run 0 '
            'sometimes cancelled mid-flight); oracle: every run equals the reference outcome and invocation multiset '
            'of a fresh evaluation for its input; deep snapshot of graph nodes/edges/attributes, node_map, node class '
            'attributes and the caller\'s input_kwargs identical before and after every run; non-trivial = history of '
            '>= 2 runs with different inputs in which a fault fired or a re-iteration / fallback happened')
    k_quick = 2
    k_thorough = 3

    def gen(self, rng):
        case = super().gen(rng)
        case['mode'] = 'sequence'
        case['reuse_chart'] = True
        case['runs'] = distinct_inputs(rng, rng.choice([2, 2, 3, 4] if self.tier == 'quick' else [2, 3, 4, 5, 6]))
        if rng.random() < 0.2:
            case['cancel'] = {str(rng.randrange(1, 80)): [0]}
        return case

    def judge(self, case, rec, refs, sd):
        vs = oracles.o_termination(case, rec)
        for v in vs:
            # a fresh chart terminates for every input (C02 is checked separately): a hang of a later run is leftover state
            if len(rec.outcomes) > 1:
                v.props.add('C07')
                v.clause = 'reuse:' + v.clause
                v.detail = f'run {len(rec.outcomes) - 1} of the history on a reused chart: ' + v.detail
        cancelled = {i for i, o in enumerate(rec.outcomes) if o[0] == 'cancelled'} if case.get('cancel') else set()
        for i, ref in enumerate(refs):
            if i >= len(rec.outcomes):
                break
            g, _ = oracles.general(case, rec, ref, i, cancelled=i in cancelled)
            for v in g:
                v.props.add('C07')
                v.clause = 'reuse:' + v.clause
                v.detail = f'run {i} of the history on a reused chart: ' + v.detail
            vs += g
        for i, snap in enumerate(rec.snaps or ()):
            if snap != rec.snaps[0]:
                diff = [k for k, (a, b) in enumerate(zip(rec.snaps[0], snap)) if a != b]
                what = ['graph nodes', 'graph edges', 'node_map', 'node classes', 'input_node', 'output_node',
                        'is_process_pool_needed', 'is_thread_pool_needed']
                vs.append(Violation({'C07'}, 'chart_state_changed',
                                    f'{[what[k] for k in diff]} differ after run {(i - 1) // 2} (snapshot {i})'))
                break
        for i, r in enumerate(case['runs']):
            if rec.input_after and rec.input_after[i] != r['input']:
                vs.append(Violation({'C07'}, 'input_kwargs_mutated',
                                    f'caller dict of run {i} became {rec.input_after[i]} (was {r["input"]})', i))
                break
        return vs

    def nontrivial(self, case, rec, refs):
        return len(refs) >= 2 and (bool(rec.fault_hits) or any(not ok for r in refs for _, _, tried, _ in r.oneof_log
                                                              for _, ok in tried))


class C08(Prop):
    id = 'C08'
    rule = ('2-4 chart.run calls of one chart (or of two charts built from the same node classes) overlapping on one '
            'simulated loop, all completions in one scheduler pool, one run sometimes cancelled; oracle: each run equals '
            'its solo reference (outcome + invocation multiset; provenance digests include the run\'s input so leakage is '
            'visible at the first contaminated node); non-trivial = >= 2 runs had completions pending at the same time')
    k_quick = 2
    k_thorough = 4

    def gen(self, rng):
        case = super().gen(rng)
        case['mode'] = 'overlap'
        case['share_chart'] = rng.random() < 0.8
        case['runs'] = distinct_inputs(rng, rng.choice([2, 2, 3, 4] if self.tier == 'quick' else [2, 3, 4, 5, 6]))
        if rng.random() < 0.25:
            case['cancel'] = {str(rng.randrange(1, 120)): [rng.randrange(len(case['runs']))]}
        if rng.random() < 0.5:
            # staggered starts: some runs begin when the scheduler says so, in the middle of the others
            case['stagger'] = sorted(rng.sample(range(1, len(case['runs'])), rng.randint(1, len(case['runs']) - 1)))
        return case

    def judge(self, case, rec, refs, sd):
        vs = oracles.o_termination(case, rec)
        for v in vs:
            # every run terminates when it runs alone (the reference always does): a hang here is interference
            v.props.add('C08')
            v.clause = 'overlap:' + v.clause
            v.detail = f'{len(refs)} overlapping runs: ' + v.detail
        cancelled = {i for i, o in enumerate(rec.outcomes) if o[0] == 'cancelled'} if case.get('cancel') else set()
        for i, ref in enumerate(refs):
            g, _ = oracles.general(case, rec, ref, i, cancelled=i in cancelled)
            for v in g:
                v.props.add('C08')
                v.clause = 'overlap:' + v.clause
                v.detail = f'run {i} of {len(refs)} overlapping runs: ' + v.detail
            vs += g
        return vs

    def nontrivial(self, case, rec, refs):
        runs_with_gates = {ev[3] for ev in rec.trace if ev[2] == 'arrive'}
        return len(runs_with_gates) >= 2 and rec.max_pending >= 2


class C13(Prop):
    id = 'C13'
    level = 'fault_enumeration'
    n_max = 8
    rule = ('for each sampled (program, input, fault plan, schedule) the run is executed once to learn its length N '
            '(loop handles), then re-executed with the same decision list and CANCEL(run) injected before handle k for '
            'EVERY k = 1..N (exhaustive over the crash points of that execution); oracle at the moment the run task is '
            'done: no body/event/save starts afterwards, every engine task finishes without further arrivals within a '
            'bounded number of handles, the canceller sees CancelledError only, the cancelled run never hangs; '
            'non-trivial = the cancellation landed while the run was pending (outcome cancelled); distinct = '
            '(case, crash point). A second arm (55 % of the cases) injects no cancellation: the run ends normally or by '
            'a node failure under 3 schedules and the same post-conditions are checked; non-trivial there = external '
            'completions were still outstanding when the run ended')
    budget_scale = 1.0

    def gen(self, rng):
        case = super().gen(rng)
        if rng.random() < 0.55:
            # arm A: no cancellation - the run ends normally or by a node failure under 3 schedules; what is left
            # behind is checked after each (cheap, many more executions per second than arm B)
            case['scheds'] = [{'seed': rng.randrange(1 << 40)} for _ in range(3)]
            case['base_only'] = True
        else:
            # arm B: one schedule, cancellation injected before every handle of that execution
            case['scheds'] = case['scheds'][:1] if rng.random() < 0.3 else [{'seed': rng.randrange(1 << 40)}]
        if rng.random() < 0.35:
            case['em'] = [{'slow': rng.random() < 0.5}]
        if rng.random() < 0.25:
            case['store'] = {'slow': rng.random() < 0.5}
        return case

    def judge(self, case, rec, refs, sd):
        vs = []
        if rec.status != DONE:
            if case.get('cancel'):
                vs.append(Violation({'C13'}, 'cancel_hangs', f'run cancelled at {list(case["cancel"])} never ended: '
                                    f'{rec.status} after {rec.steps} handles, outcomes {rec.outcomes}'))
            return vs
        vs += oracles.o_leftover(case, rec, len(refs))
        if case.get('cancel'):
            oc = rec.outcomes[0]
            injected = any(ev[2] == 'cancel' for ev in rec.trace)
            if injected and oc[0] == 'raised':
                vs.append(Violation({'C13'}, 'cancel_surfaced_as_other_exception',
                                    f'canceller saw {oc[1]} {oc[2]} instead of CancelledError'))
            if injected and oc[0] == 'error' and oc[1] == 'CancelledError':
                vs.append(Violation({'C13'}, 'cancel_swallowed',
                                    'the cancellation was converted into an ordinary error result: the canceller does '
                                    'not see CancelledError'))
        return vs

    def nontrivial(self, case, rec, refs):
        if case.get('base_only'):
            # the run ended while engine work was still outstanding (stragglers of an abandoned candidate, siblings of
            # a failed node): there was something to clean up
            return bool(rec.pending_at_end)
        return rec.outcomes[0][0] == 'cancelled'

    def evaluate(self, case, stats=None):
        if case.get('cancel') is not None or case.get('base_only') or len(case['scheds']) > 1:
            return super().evaluate(case, stats)
        refs = self.refs(case)
        names = names_of(case['spec'])
        cd = case_digest(case)
        sd = case['scheds'][0]
        sched, set_seed = build_sched(sd, names)
        base = run_case(case, sched, set_seed=set_seed)
        if stats is not None:
            stats.add_run(cd, base, False, sd.get('policy', 'fifo'), case['spec'].get('class'))
            stats.cases += 1
        vs = [v for v in self.judge(case, base, refs, sd) if self.id in v.props]
        if vs:
            vs[0].sched = 0
            return [self.make_replay(case, vs[0], base, [base])]
        if base.status != DONE:
            if stats is not None:
                stats.inconclusive += 1
            return []
        script = [[p, list(a)] for p, a in base.decisions]
        n = base.steps
        ks = range(1, n + 1) if n <= 160 else sorted(set(range(1, n + 1, max(1, n // 160))))
        import time as _time
        for k in ks:
            if getattr(self, 'deadline', None) is not None and _time.monotonic() > self.deadline + 5.0:
                if stats is not None:
                    stats.inconclusive += 1      # enumeration of this execution cut short by the time budget
                    stats.probe('cancel_enumerations_cut_short')
                break
            c2 = dict(case)
            c2['cancel'] = {str(k): [0]}
            c2['scheds'] = [{'script': script, 'set_seed': set_seed}]
            rec = run_case(c2, ScriptedScheduler(script), set_seed=set_seed)
            if stats is not None:
                stats.add_run(h64(cd, k), rec, self.nontrivial(c2, rec, refs), 'scripted+cancel',
                              case['spec'].get('class'))
                stats.probe('cancel_points')
                if rec.outcomes[0][0] == 'cancelled':
                    stats.probe('cancel_landed_on_pending_run')
            vs = [v for v in self.judge(c2, rec, refs, sd) if self.id in v.props]
            if vs:
                vs[0].sched = 0
                return [self.make_replay(c2, vs[0], rec, [rec])]
        return []

    def extra_coverage(self, results):
        return {'exhaustive_over_crash_points_of_each_sampled_execution': True}


MODE_VECTORS = ['coro', 'inline', 'thread', 'process', 'mixed', 'mixed']


class C17(Prop):
    id = 'C17'
    rule = ('transparency: each sampled (program, input, fault plan) is re-run under 6 assignments of execution modes '
            '(all coroutine / all inline / all thread / all process / 2 random mixes) with seeded schedules; every '
            'assignment must terminate with the reference outcome (the reference has no notion of mode). fail-fast: 5 of '
            'the 16 worker interpreters start with a deficient pool registry (no thread pool, no process pool, thread '
            'pool shut down, process pool shut down, process manager missing; public registry API only) and 2 more with '
            'a pool that serves one healthy run and is then shut down by its owner (executor.shutdown()); if the '
            'program needs the missing pool the run must end with an error result, zero body invocations, within 60 '
            'loop handles; non-trivial = >= 2 mode vectors compared with >= 2 completions pending, or a pool fault fired')
    k_quick = 1
    k_thorough = 2

    def registry_states(self, n):
        st = ['both'] * n
        for i, s in enumerate(['no-thread', 'no-process', 'thread-shutdown', 'process-shutdown', 'no-manager']):
            if 3 * i + 2 < n:
                st[3 * i + 2] = s
        for i in (0, 4, 9):
            if i < n and st[i] == 'both':
                st[i] = 'baton-thread'      # real ThreadPoolExecutor under baton control
        for i, s in ((1, 'thread-shutdown-late'), (3, 'process-shutdown-late')):
            if i < n and st[i] == 'both' and n >= 6:
                st[i] = s                   # healthy for a first run, then shut down by its owner
        return st

    def gen(self, rng):
        case = super().gen(rng)
        case['mode_seeds'] = [rng.randrange(1 << 30) for _ in MODE_VECTORS]
        return case

    @staticmethod
    def variant(spec, vec, seed):
        s = copy.deepcopy(spec)
        r = random.Random(seed)
        for n in s['nodes']:
            m = vec if vec != 'mixed' else r.choice(['coro', 'inline', 'thread', 'process'])
            n['mode'] = m
            n['gates'] = r.choice([0, 1, 1, 2]) if m == 'coro' else 0
            n.pop('thread_tag', None)
        return s

    def evaluate(self, case, stats=None):
        from . import materialize as mat
        full_state = state = mat._REG.get('state', 'both')
        if state.endswith('-late'):
            if not mat._REG.get('flipped'):
                # first use of the pool in this interpreter: one healthy run that needs it, then its owner shuts it down
                warm = dict(case)
                warm['spec'] = self.variant(case['spec'], 'thread' if state.startswith('thread') else 'process', 0)
                warm['fixed_modes'] = True
                warm['registry'] = full_state
                sched, set_seed = build_sched({'fifo': True}, names_of(case['spec']))
                run_case(warm, sched, set_seed=set_seed)
                mat.flip_late()
            state = state[:-len('-late')]
        if case.get('fixed_modes'):
            variants = [(case.get('vector', '?'), case['spec'])]
        else:
            variants = [(vec, self.variant(case['spec'], vec, sd)) for vec, sd in zip(MODE_VECTORS, case['mode_seeds'])]
        refs = self.refs(case)
        names = names_of(case['spec'])
        if stats is not None:
            stats.cases += 1
        for vec, spec in variants:
            c2 = dict(case)
            c2['spec'] = spec
            c2['fixed_modes'] = True
            c2['vector'] = vec
            c2['registry'] = full_state
            cd = case_digest(c2)
            for si, sd in enumerate(case['scheds']):
                sched, set_seed = build_sched(sd, names)
                rec = run_case(c2, sched, set_seed=set_seed)
                vs = self.judge_state(c2, rec, refs, state)
                if state not in ('both', 'baton-thread') and rec.steps is not None and rec.steps <= 60 \
                        and rec.outcomes and rec.outcomes[0][0] == 'error' and rec.outcomes[0][1] == 'RuntimeError':
                    rec.fault_hits = dict(rec.fault_hits or {})
                    rec.fault_hits['pool_fault_' + full_state] = rec.fault_hits.get('pool_fault_' + full_state, 0) + 1
                if stats is not None:
                    stats.add_run(cd, rec, rec.max_pending >= 2 or state not in ('both', 'baton-thread'),
                                  sd.get('policy', 'fifo'),
                                  spec.get('class'))
                    stats.probe('vector_' + vec)
                if vs:
                    vs[0].sched = 0
                    c3 = dict(c2)
                    c3['scheds'] = [sd]
                    return [self.make_replay(c3, vs[0], rec, [rec])]
        return []

    def judge_state(self, case, rec, refs, state):
        spec = case['spec']
        modes = {n['mode'] for n in spec['nodes']}
        need_thread = 'thread' in modes
        need_process = 'process' in modes
        missing = ((state in ('no-thread', 'thread-shutdown') and need_thread)
                   or (state in ('no-process', 'process-shutdown', 'no-manager') and need_process))
        if state not in ('both', 'baton-thread'):
            if not missing:
                return []
            vs = []
            nbody = sum(1 for ev in rec.trace if ev[2] == 'body_start')
            oc = rec.outcomes[0]
            if rec.status != DONE:
                vs.append(Violation({'C17'}, 'missing_pool_hangs', f'registry {state}: run {rec.status}'))
            elif oc[0] != 'error':
                vs.append(Violation({'C17'}, 'missing_pool_no_error', f'registry {state}: outcome {oc[:3]}'))
            elif nbody:
                vs.append(Violation({'C17'}, 'missing_pool_partial_run',
                                    f'registry {state}: {nbody} node bodies were invoked before the failure'))
            elif rec.steps > 60:
                vs.append(Violation({'C17'}, 'missing_pool_not_immediate', f'registry {state}: {rec.steps} handles'))
            return vs
        vs = oracles.o_termination(case, rec) + oracles.o_outcome(case, rec, refs[0], 0)
        out = []
        for v in vs:
            out.append(Violation({'C17'}, 'mode_changes_outcome',
                                 f'mode vector {case.get("vector")} {[n["mode"] for n in spec["nodes"]]}: {v.clause}: {v.detail}'))
        return out

    def extra_coverage(self, results):
        return {'real_pools': '3 of 16 worker interpreters register the REAL ThreadPoolExecutor(64) and run thread-mode '
                              'nodes through the stock executor.submit / wrap_future / call_soon_threadsafe path under baton '
                              'control (job thread parked until released, loop thread blocked until the job and its completion '
                              'callback are done; counted as fault kind real_thread_job); the process pool is always simulated '
                              '(job body at submission + pickle round trip)', 'mode_vectors': MODE_VECTORS}


class C18(Prop):
    id = 'C18'
    level = 'fault_enumeration'
    no_shrink = True
    rule = ('Hypothesis stateful machine (outside pytest, one PRNG value per case) over the real '
            'FileSystemArtifactStore on a fresh directory vs a dict model: save / load / save-with-faults over 1-3 '
            'contexts sharing the directory, both formats, keys biased to dots, glob metacharacters and prefixes / '
            'extensions of earlier keys. save-with-faults fails open() once and then EVERY write call index of that '
            'save once (torn write + ENOSPC), checking after each failure that the key is absent and finally that a '
            'clean save succeeds. non-trivial = an injected fault fired or an aliasing-prone key pair was exercised; '
            'distinct = distinct operation sequences')
    components = {
        'real': ['FileSystemArtifactStore', 'serializers (pickle/json)', 'real files in a fresh temp directory'],
        'simulated': ['pathlib.Path inside the store module replaced by a fault-injecting subclass (open errors, '
                      'failing k-th write with a torn half-chunk)'],
        'generated': ['operation sequences (Hypothesis RuleBasedStateMachine)', 'pipeline contexts'],
    }

    def gen(self, rng):
        return {'hyp_seed': rng.randrange(1 << 30), 'spec': {'nodes': [], 'class': 'fsstore'}}

    @staticmethod
    def classify(msg):
        if 'aliasing' in msg:
            return 'keys_alias'
        if 'appears saved' in msg:
            return 'failed_save_blocks_key'
        if 'after a failed save' in msg:
            return 'failed_save_leaves_artifact'
        if msg.startswith('save(') and 'raised' in msg:
            return 'save_raises'
        if 'ArtifactDoesNotExist' in msg:
            return 'saved_key_missing'
        if 'second save' in msg:
            return 'second_save_accepted'
        if 'returned' in msg:
            return 'load_returns_other_value'
        return 'store_model_mismatch'

    def evaluate(self, case, stats=None):
        from . import fsstore_machine as fm
        if 'ops' in case:
            v, st = fm.run_ops(fm.unjson(case['ops']))
            if v is None:
                return []
            return [{'property': 'C18', 'clause': self.classify(v['what']), 'detail': v['what'], 'case': case,
                     'log_digest': fm.ops_digest(case['ops']), 'status': 'done', 'outcomes': []}]
        from hypothesis import HealthCheck, seed, settings
        from hypothesis.stateful import run_state_machine_as_test
        Machine = fm.build_machine()
        seen = []

        def sink(h):
            seen.append((fm.ops_digest(h.ops), dict(h.stats), len(h.ops)))

        Machine.STATS_SINK = staticmethod(sink)
        n = 12 if self.tier == 'quick' else 40
        err = None
        try:
            run_state_machine_as_test(
                seed(case['hyp_seed'])(Machine),
                settings=settings(database=None, deadline=None, report_multiple_bugs=False, max_examples=n,
                                  stateful_step_count=10, suppress_health_check=list(HealthCheck)),
            )
        except AssertionError as ex:
            err = str(ex)
        finally:
            if Machine.LAST is not None:
                Machine.LAST.close()
        if stats is not None:
            stats.cases += 1
            for dg, st_, nops in seen:
                stats.evaluations += 1
                key = h64('C18', dg)
                stats.distinct.add(key)
                if st_['faults_fired'] or st_['alias_pairs']:
                    stats.nontrivial.add(key)
                stats.fault_hits['disk_fault_fired'] = stats.fault_hits.get('disk_fault_fired', 0) + st_['faults_fired']
                stats.probe('alias_prone_key_pairs', st_['alias_pairs'])
                stats.probe('write_call_indices_failed', st_['write_points'])
                stats.probe('operations', nops)
        if err is None:
            return []
        ops = fm.jsonable(Machine.LAST.ops)
        c2 = dict(case)
        c2['ops'] = ops
        out = self.evaluate(c2, None)
        if not out:
            raise RuntimeError(f'hypothesis failure did not replay: {err} ops={ops}')
        return out

    def sample(self, case):
        from . import fsstore_machine as fm
        return {'hypothesis_seed': case['hyp_seed'], 'note': 'operation sequences are drawn by Hypothesis from this seed',
                'example_ops': [['ctx', 'm', 'p'], ['save', 0, 'a.b', {'k': [1, None]}, 'json'], ['load', 0, 'a'],
                                ['save_faults', 0, 'a*', [0, 'x'], 'pickle']]}


PROPS = {c.id: c for c in (C01, C02, C03, C04, C05, C06, C07, C08, C09, C10, C11, C12, C13, C14, C17, C18, C19)}


def get_prop(pid, tier='quick'):
    return PROPS[pid](tier)
