"""Simulation context: gates, trace, schedulers, decision recording and replay."""
from __future__ import annotations

import asyncio
import contextvars
import hashlib
import pickle
import random

from . import simloop
from .simloop import DONE, QUIESCENT, STEPCAP, Gate, SimLoop, _release

CUR_RUN = contextvars.ContextVar('verifsim_run', default=0)
CURRENT = None  # the Sim that is executing right now (single-threaded)


def current() -> 'Sim':
    return CURRENT


class SimSet(set):
    """set of Tasks with an iteration order that does not depend on object addresses.

    Order = insertion order permuted by a per-run key (drawn from the run's PRNG at add time), so
    that the engine's "first error in tasks" is an arbitrary but replayable choice."""

    def __init__(self, rng=None):
        super().__init__()
        self._rng = rng
        self._keys = {}
        self._n = 0

    def add(self, item):
        if item not in self:
            self._n += 1
            k = (self._rng.random() if self._rng is not None else 0.0, self._n)
            self._keys[id(item)] = k
            self.__dict__.setdefault('_strong', []).append(item)  # keep ids stable
        super().add(item)

    def __iter__(self):
        items = list(super().__iter__())
        items.sort(key=lambda it: self._keys[id(it)])
        return iter(items)


# ---------------------------------------------------------------------------------------------
# schedulers
# ---------------------------------------------------------------------------------------------
class Scheduler:
    """Decides, at every decision point, which enabled actions to take.

    forced=True: ready queue empty, at least one action is enabled, one must be returned."""

    name = 'base'

    def setup(self, sim):
        pass

    def on_gate(self, sim, gate):
        pass

    def decide(self, sim, point, forced, gates, can_tick, boundary):
        raise NotImplementedError


class FifoScheduler(Scheduler):
    """Never arrives early; at quiescence releases the oldest gate (ticks last)."""
    name = 'fifo'

    def decide(self, sim, point, forced, gates, can_tick, boundary):
        if not forced:
            return ()
        if gates:
            return (('arrive', gates[0].label),)
        return (('tick',),)


class RandomScheduler(Scheduler):
    def __init__(self, rng: random.Random, params: dict):
        self.rng = rng
        self.p = params
        self.name = params.get('policy', 'random')
        self.hold = set(params.get('hold', ()))
        self.flip_at = set(params.get('flip_at', ()))

    def on_gate(self, sim, gate):
        gate.prio = self.rng.random()

    def _pick(self, sim, gates):
        pol = self.name
        rng = self.rng
        if pol == 'lifo':
            return gates[-1]
        if pol == 'priority':
            return max(gates, key=lambda g: (g.prio, g.gid))
        if pol == 'starve':
            free = [g for g in gates if g.node not in self.hold]
            if free:
                return free[rng.randrange(len(free))]
            return gates[rng.randrange(len(gates))]
        if pol == 'fifoish':
            return gates[0]
        return gates[rng.randrange(len(gates))]

    def decide(self, sim, point, forced, gates, can_tick, boundary):
        acts = self._decide(sim, point, forced, gates, can_tick, boundary)
        burst = self.p.get('burst', 1)
        if burst > 1 and acts and acts[0][0] == 'arrive' and len(gates) > 1 and self.rng.random() < 0.5:
            # several completions collected by one select() call: they arrive back to back
            acts = list(acts)
            rest = [g for g in gates if g.label != acts[0][1]]
            for _ in range(burst - 1):
                if not rest:
                    break
                g = self._pick(sim, rest)
                rest = [x for x in rest if x is not g]
                acts.append(('arrive', g.label))
            return tuple(acts)
        return acts

    def _decide(self, sim, point, forced, gates, can_tick, boundary):
        rng = self.rng
        p = self.p
        if self.name == 'priority' and point in self.flip_at:
            for g in gates:
                g.prio = rng.random()
        if forced:
            if gates and can_tick:
                if self.name == 'starve' and all(g.node in self.hold for g in gates):
                    # withheld nodes stay withheld while time can still advance
                    if rng.random() < 0.8:
                        return (('tick',),)
                if rng.random() < p.get('tick_pref', 0.5):
                    return (('tick',),)
                return (('arrive', self._pick(sim, gates).label),)
            if gates:
                return (('arrive', self._pick(sim, gates).label),)
            return (('tick',),)
        q = p.get('qb', 0.2) if boundary else p.get('q', 0.2)
        if q <= 0.0 or rng.random() >= q:
            return ()
        if self.name == 'starve':
            gates = [g for g in gates if g.node not in self.hold]
        if gates and can_tick:
            if rng.random() < p.get('tick_pref', 0.5) * 0.5 and boundary:
                return (('tick',),)
            return (('arrive', self._pick(sim, gates).label),)
        if gates:
            return (('arrive', self._pick(sim, gates).label),)
        if can_tick and boundary and rng.random() < p.get('tick_pref', 0.5):
            return (('tick',),)
        return ()


class BarrierScheduler(Scheduler):
    """C06: nodes in `hold` are withheld forever; everything else is released as soon as possible."""
    name = 'barrier'

    def __init__(self, hold):
        self.hold = set(hold)

    def decide(self, sim, point, forced, gates, can_tick, boundary):
        if not forced:
            return ()
        free = [g for g in gates if g.node not in self.hold]
        if free:
            return (('arrive', free[0].label),)
        if can_tick:
            return (('tick',),)
        return (('stop',),)


class ScriptedScheduler(Scheduler):
    """Replays a recorded decision list; total: falls back to FIFO where the script is silent."""
    name = 'scripted'

    def __init__(self, decisions):
        self.script = {}
        for point, action in decisions:
            self.script.setdefault(point, []).append(tuple(action) if isinstance(action, list) else action)

    def decide(self, sim, point, forced, gates, can_tick, boundary):
        acts = self.script.get(point)
        out = []
        if acts:
            labels = {g.label for g in gates}
            for a in acts:
                a = tuple(a)
                if a[0] == 'arrive':
                    lab = tuple(a[1]) if isinstance(a[1], list) else a[1]
                    if lab in labels:
                        out.append(('arrive', lab))
                        labels.discard(lab)
                elif a[0] == 'tick' and can_tick:
                    out.append(('tick',))
                elif a[0] == 'stop':
                    out.append(('stop',))
        if out:
            return tuple(out)
        if forced:
            if gates:
                return (('arrive', gates[0].label),)
            return (('tick',),)
        return ()


def make_scheduler(rng: random.Random, node_names=()):
    """Swarm: draw a policy and its parameters from the run's PRNG."""
    r = rng.random()
    if r < 0.10:
        return FifoScheduler(), {'policy': 'fifo'}
    pol = rng.choice(['random', 'random', 'priority', 'priority', 'starve', 'lifo', 'fifoish'])
    params = {
        'policy': pol,
        'q': rng.choice([0.0, 0.05, 0.15, 0.3, 0.6, 0.9]),
        'qb': rng.choice([0.0, 0.1, 0.3, 0.7]),
        'tick_pref': rng.choice([0.05, 0.3, 0.5, 0.7, 0.95]),
        'burst': rng.choice([1, 1, 2, 3]),
    }
    if pol == 'starve' and node_names:
        k = rng.randint(1, max(1, len(node_names) // 2))
        params['hold'] = sorted(rng.sample(list(node_names), min(k, len(node_names))))
    if pol == 'priority':
        params['flip_at'] = sorted(rng.sample(range(1, 400), rng.randint(0, 3)))
    return RandomScheduler(rng, params), params


# ---------------------------------------------------------------------------------------------
class Sim:
    def __init__(self, scheduler: Scheduler, step_cap: int = 20000, set_rng=None, task_cap: int = 2500):
        self.scheduler = scheduler
        self.loop = SimLoop(self)
        self.step_cap = step_cap
        self.task_cap = task_cap
        self.set_rng = set_rng
        self.trace = []          # (seq, vtime, kind, run, node, payload)
        self.seq = 0
        self.point = 0
        self.gates = []          # pending, in creation order
        self.all_gates = []
        self.gate_count = 0
        self.gate_occ = {}
        self.decisions = []      # (point, action)
        self.run_tasks = []      # index = run id
        self.watch = None        # predicate() -> True when the drive should stop with DONE
        self.cancel_plan = {}    # handle number -> [run ids]
        self.fault_hits = {}
        self.max_inflight = 0
        self.inflight = {}
        self.stopped = False
        self.after_done_handles = 0
        self.out_of_order = 0
        self.process_roundtrip = True
        self.done_seq = {}
        self.late_cb = None
        self.max_pending = 0
        self.last_external = 0
        self.max_lag = 0
        self.pending_at_end = 0
        self.retry_timers = []      # (run, engine node id, seconds) of every asyncio.sleep of the engine's retry loop

    @staticmethod
    def cur_run():
        return CUR_RUN.get()

    # -- trace -------------------------------------------------------------------------------
    def log(self, kind, node=None, payload=None, run=None):
        self.seq += 1
        if run is None:
            run = CUR_RUN.get()
        self.trace.append((self.seq, self.loop._vtime, kind, run, node, payload))

    def hit(self, kind, n=1):
        self.fault_hits[kind] = self.fault_hits.get(kind, 0) + n

    def digest(self) -> str:
        h = hashlib.sha256()
        for ev in self.trace:
            h.update(repr(ev).encode())
        for d in self.decisions:
            h.update(repr(d).encode())
        return h.hexdigest()

    # -- gates -------------------------------------------------------------------------------
    def _new_gate(self, node, kind, outcome=None):
        run = CUR_RUN.get()
        key = (run, node, kind)
        occ = self.gate_occ.get(key, 0)
        self.gate_occ[key] = occ + 1
        label = (run, node, kind, occ)
        self.gate_count += 1
        g = Gate(label, self.loop.create_future(), self.gate_count, kind, outcome, run, node)
        self.gates.append(g)
        if kind == 'exec':
            self.all_gates.append(g)
        if len(self.gates) > self.max_pending:
            self.max_pending = len(self.gates)
        self.scheduler.on_gate(self, g)
        return g

    def gate(self, node, kind='body'):
        """Awaitable suspension point owned by the scheduler."""
        return self._new_gate(node, kind).fut

    def _submit_baton(self, executor, func, args, node):
        """real ThreadPoolExecutor + stock wrap_future / call_soon_threadsafe, made deterministic by baton passing:
        the job thread parks until the scheduler releases it, then the loop thread blocks until the job has finished
        and its completion callback has been queued - two threads never run at once."""
        import threading
        start = threading.Event()
        done = threading.Event()
        flag = {'skip': False}
        run_id = CUR_RUN.get()
        sim = self

        def job():
            start.wait()
            if flag['skip']:
                return None
            CUR_RUN.set(run_id)
            return func(*args)

        cf = executor.submit(job)
        fut = asyncio.wrap_future(cf, loop=self.loop)
        cf.add_done_callback(lambda _cf: done.set())    # registered after wrap_future's own callback

        def action():
            start.set()
            if not done.wait(60):
                raise RuntimeError('baton: executor job did not finish')
            sim.hit('real_thread_job')

        g = self._new_gate(node, 'exec', None)
        g.fut = fut
        g.action = action
        g.abort = lambda: (flag.__setitem__('skip', True), start.set())
        return fut

    def submit_executor_job(self, executor, func, args):
        # simulated pool: the job body runs at submission (the last instant the engine controls),
        # its completion is a gate.
        node = getattr(func, 'func', func)
        node = getattr(getattr(node, '__self__', None), 'SPEC_NAME', None) or '?exec'
        is_process = getattr(executor, 'is_process', False)
        if not hasattr(executor, 'is_process'):
            return self._submit_baton(executor, func, args, node)
        try:
            if is_process and self.process_roundtrip:
                func = pickle.loads(pickle.dumps(func))
            res = func(*args)
            if is_process and self.process_roundtrip:
                res = pickle.loads(pickle.dumps(res))
            outcome = ('ok', res)
        except BaseException as ex:  # noqa: BLE001 - delivered to the awaiting task
            if is_process and self.process_roundtrip:
                try:
                    ex = pickle.loads(pickle.dumps(ex))
                except Exception:  # noqa: BLE001
                    pass
            outcome = ('exc', ex)
        g = self._new_gate(node, 'exec', outcome)
        return g.fut

    def pending_gates(self):
        gs = self.gates
        if any(g.fut.done() for g in gs):
            gs = [g for g in gs if not g.fut.done()]
            self.gates = gs
        return gs

    def kill_gates(self):
        for g in self.all_gates:
            abort = getattr(g, 'abort', None)
            if abort is not None:
                abort()
        for g in self.gates:
            if not g.fut.done():
                g.fut.cancel()
        self.gates = []

    # -- decision points ---------------------------------------------------------------------
    def _apply(self, actions):
        for a in actions:
            if a[0] == 'arrive':
                lab = a[1]
                for i, g in enumerate(self.gates):
                    if g.label == lab and not g.fut.done():
                        if i != 0:
                            self.out_of_order += 1
                        del self.gates[i]
                        g.fired = True
                        self.seq += 1
                        self.trace.append((self.seq, self.loop._vtime, 'arrive', g.run, g.node, g.kind))
                        action = getattr(g, 'action', None)
                        if action is not None:
                            action()
                        else:
                            self.loop.call_soon(_release, g)
                        self.decisions.append((self.point, ('arrive', lab)))
                        self.last_external = self.loop.handles_run
                        break
            elif a[0] == 'tick':
                if self.loop.tick():
                    self.seq += 1
                    self.trace.append((self.seq, self.loop._vtime, 'tick', -1, None, None))
                    self.decisions.append((self.point, ('tick',)))
                    self.last_external = self.loop.handles_run
            elif a[0] == 'stop':
                self.stopped = True
                self.decisions.append((self.point, ('stop',)))

    def at_boundary(self):
        self.point += 1
        if self.stopped:
            return
        gates = self.pending_gates()
        can_tick = self.loop.next_timer() is not None
        forced = not self.loop._ready
        if not gates and not can_tick:
            return
        if self._all_runs_done():
            return  # no further external completions once every run has ended (C13 drain)
        acts = self.scheduler.decide(self, self.point, forced, gates, can_tick, True)
        if acts:
            self._apply(acts)

    def before_handle(self):
        self.point += 1
        plan = self.cancel_plan
        if plan:
            runs = plan.get(self.loop.handles_run)
            if runs is not None:
                for r in runs:
                    t = self.run_tasks[r]
                    if not t.done():
                        t.cancel()
                        self.hit('cancel_run')
                        self.last_external = self.loop.handles_run
                        self.log('cancel', None, None, run=r)
                plan.pop(self.loop.handles_run, None)
        if self.stopped:
            return
        gates = self.gates
        if not gates:
            return
        gates = self.pending_gates()
        if not gates or self._all_runs_done():
            return
        acts = self.scheduler.decide(self, self.point, False, gates, False, False)
        if acts:
            self._apply(acts)

    def _all_runs_done(self):
        for t in self.run_tasks:
            if not t.done():
                return False
        return bool(self.run_tasks)

    def after_handle(self):
        n = self.loop.handles_run
        if n >= self.step_cap:
            return STEPCAP
        if (n & 255) == 0 and len(asyncio.all_tasks(self.loop)) > self.task_cap:
            return STEPCAP      # runaway task creation: a livelock that would make every further handle slower
        for i, t in enumerate(self.run_tasks):
            if i not in self.done_seq and t.done():
                self.done_seq[i] = (self.seq, self.loop.handles_run)
                self.pending_at_end = max(self.pending_at_end, len(self.pending_gates()))
                lag = self.loop.handles_run - self.last_external
                if lag > self.max_lag:
                    self.max_lag = lag
                self.log('run_done', None, None, run=i)
        if self.done_seq and len(self.done_seq) == len(self.run_tasks):
            self.after_done_handles += 1
        return None

    # -- running -----------------------------------------------------------------------------
    def start_run(self, coro_factory, run_id=None):
        """coro_factory() -> coroutine; wrapped so that the whole run (and every task it spawns)
        carries its run id in a contextvar."""
        rid = len(self.run_tasks) if run_id is None else run_id
        ctx = contextvars.copy_context()

        def mk():
            CUR_RUN.set(rid)
            return self.loop.create_task(coro_factory(), name=f'verif-run-{rid}')

        task = ctx.run(mk)
        self.run_tasks.append(task)
        return task

    def drive(self):
        global CURRENT
        prev = CURRENT
        CURRENT = self
        try:
            st = self.loop.drive()
        finally:
            CURRENT = prev
        if st == QUIESCENT and self._all_runs_done():
            return DONE
        return st

    def leftover_tasks(self):
        return sorted(t.get_name() for t in asyncio.all_tasks(self.loop) if not t.done())

    def close(self):
        global CURRENT
        prev = CURRENT
        CURRENT = self
        try:
            self.kill_gates()
            self.loop.drain_and_close()
        finally:
            CURRENT = prev


__all__ = ['Sim', 'SimSet', 'CUR_RUN', 'current', 'make_scheduler', 'FifoScheduler', 'RandomScheduler',
           'BarrierScheduler', 'ScriptedScheduler', 'DONE', 'QUIESCENT', 'STEPCAP', 'simloop']
