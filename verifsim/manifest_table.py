"""Single source of truth for MANIFEST.json (scripts/gen_manifest.py)."""
HOOK_COMMITS = []
TECH = "deterministic simulation with fault injection: seeded schedule/fault search on a virtual-time asyncio loop"
NOTE = ("trusted base: CPython asyncio primitives, the SimLoop driver (FIFO ready queue kept, only external "
        "completions / clock / faults scheduled), the generator's construct classes and the reference interpreter; "
        "sampled, not enumerated")
CHECKS = [
    {"property_id": "C01", "level": "exploration", "technique": TECH + "; oracle = reference interpreter + cross-schedule agreement",
     "text": "seeded search over (program, input, fault plan, schedule): every run's outcome must equal the outcome of an independent reference evaluation of the declarations, and all schedules of one case must agree; evidence not proof",
     "note": NOTE},
    {"property_id": "C02", "level": "exploration", "technique": TECH + "; exact deadlock verdict = quiescent loop with unfinished run",
     "text": "seeded search with node/collaborator faults; a hang is decided exactly (loop idle, nothing outstanding, run pending), not by timeout",
     "note": NOTE},
    {"property_id": "C03", "level": "exploration", "technique": TECH + "; per-invocation argument oracle against the reference",
     "text": "every body invocation's kwargs (key set + provenance digests) must be one the reference predicts from final input values",
     "note": NOTE},
    {"property_id": "C04", "level": "exploration", "technique": TECH + "; invocation multiset vs reference",
     "text": "multiset of (node, kwargs digest, attempt) invocations never exceeds the reference's and equals it for required nodes on successful runs",
     "note": NOTE},
    {"property_id": "C05", "level": "exploration", "technique": TECH + "; failure-token oracle",
     "text": "with 1-4 failing nodes per program the reported error must carry the token of an exception a required node really raised (or the documented no-result error); no engine artefact, no raise of Exception subclasses, no value on failure",
     "note": NOTE},
]
NOT_APPLICABLE = [
    {"property_id": "C15", "reason": "pure function of the declarations (builder): no schedule, clock, fault or interleaving to simulate - DESIGN.md section 8"},
    {"property_id": "C16", "reason": "pure function of the declarations (build-time validation): no schedule, clock, fault or interleaving to simulate - DESIGN.md section 8"},
    {"property_id": "C20", "reason": "pure function of a built DAG (viewer projection): no schedule, clock, fault or interleaving to simulate - DESIGN.md section 8"},
]
PENDING = ["C06", "C07", "C08", "C09", "C10", "C11", "C12", "C13", "C14", "C17", "C18", "C19"]
for _p in PENDING:
    NOT_APPLICABLE.append({"property_id": _p, "reason": "check under construction in this build phase (planned: deterministic simulation, DESIGN.md section 6); not claimed yet"})
