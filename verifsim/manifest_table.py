"""Single source of truth for MANIFEST.json (scripts/gen_manifest.py)."""
HOOK_COMMITS = []
TECH = "deterministic simulation with fault injection: seeded schedule/fault search on a virtual-time asyncio loop"
NOTE = ("trusted base: CPython asyncio primitives, the SimLoop driver (FIFO ready queue kept; only arrivals of external "
        "completions, clock advances and injected faults are scheduled), the generator's construct classes minus "
        "carve-outs (known_findings.json) and the reference interpreter; executor jobs run at submission (simulated "
        "pools); sampled, not enumerated: a clean batch is evidence, not proof")


def _c(pid, level, tech, text, note=NOTE):
    return {"property_id": pid, "level": level, "technique": TECH + "; " + tech, "text": text, "note": note}


CHECKS = [
    _c("C01", "exploration", "oracle = independent reference interpreter of the declarations + cross-schedule agreement",
       "seeded search over (program, input, fault plan, schedule): every run's outcome must equal the reference evaluation of the declarations and all schedules of one case must agree"),
    _c("C02", "exploration", "exact deadlock verdict = quiescent loop with an unfinished run; node and collaborator faults",
       "a hang is decided exactly (loop idle, no gate or timer outstanding, run pending), not by timeout; faults: failing nodes, None/falsy values, unknown switch labels, failing candidates at any depth, raising/slow event managers and stores"),
    _c("C03", "exploration", "per-invocation argument oracle against the reference",
       "every body invocation's kwargs (key set + provenance digests of final input values) must be one the reference predicts; None placeholders, Recurrent markers, exception objects and stale iterations change the digest"),
    _c("C04", "exploration", "invocation multiset vs reference",
       "multiset of (node, kwargs digest, attempt) invocations never exceeds the reference's and equals it for required nodes on successful runs, with nodes shared between main / switch / one-of scopes"),
    _c("C05", "exploration", "failure-token oracle",
       "with 1-4 failing nodes per program the reported error must carry the token of an exception a required node really raised (or the documented no-result error); no engine artefact, no raise for Exception subclasses, no value on failure"),
    _c("C06", "exploration", "barrier scheduler per dependency depth",
       "for every depth of every sampled plain DAG all holdable nodes of that depth are withheld until quiescence; each node of the depth must have started"),
    _c("C07", "exploration", "sequential run histories on one chart + deep state snapshots",
       "2-4 sequential runs (some failing / cancelled) on one chart: each equals the reference for its input; graph, node_map, class attributes and the caller's dict are unchanged"),
    _c("C08", "exploration", "k overlapping runs on one simulated loop",
       "2-4 overlapping chart.run calls with all completions in one scheduler pool, one run sometimes cancelled: each surviving run equals its solo reference"),
    _c("C09", "exploration", "switch classes incl. shared cases and unknown labels",
       "executed bodies are a subset of the reference demanded set, the consumer gets the selected case's value, an unknown label ends the run with an error"),
    _c("C10", "exploration", "one-of classes with failures at any depth; candidate start-order oracle",
       "winner = first succeeding candidate, laziness and containment via the invocation multiset, candidate-private nodes start only after the previous candidate failed, exhaustion gives OneOfDoesNotHaveResultError"),
    _c("C11", "exploration", "recurrent class, 0..max+1 requested iterations",
       "per-iteration invocation multiset: exactly the path set re-executed with additional_data, at most max re-iterations, consumers only see the final value / default, else RecurrentSubgraphDoesNotHaveResultError"),
    _c("C12", "exploration", "retry configuration x per-attempt outcome plans; virtual-time delay oracle",
       "attempt counts, identical kwargs per attempt, virtual-time gap >= delay, exception filter, get_default kwargs, BaseException neither retried nor defaulted"),
    _c("C13", "fault_enumeration", "cancellation injected before EVERY loop handle of each sampled execution",
       "for each sampled execution the caller's cancel is injected at every crash point; afterwards nothing starts, every task finishes within a bound without further arrivals, the canceller sees CancelledError only"),
    _c("C14", "exploration", "event-word automaton merged with the body trace",
       "recording (and slow) event managers: pipeline_start first/once, pipeline_complete last/once with the returned result, (node_start node_complete+)* per node, one complete per attempt with the right error, no value delivered before its successful complete"),
    _c("C17", "exploration", "6 execution-mode vectors per case; deficient pool registries in dedicated worker interpreters",
       "every mode assignment yields the reference outcome (simulated pools incl. pickle round trip for process mode); with a needed pool missing / shut down the run fails with an error result, no body invoked, within 60 handles"),
    _c("C18", "fault_enumeration", "Hypothesis stateful machine vs dict model; every write-call index of a save failed once",
       "save/load sequences over adversarial keys and shared directories; open() and each write call of a save are failed in turn (torn write), the key must stay absent and a clean save must then succeed",
       "trusted base: Hypothesis 6.168, the dict model, the fault-injecting Path subclass inside the store module; real files in a temp directory"),
    _c("C19", "exploration", "recording / write-once artifact store",
       "on successful reference outcomes each executed node is saved exactly once with its final value, never a Recurrent marker or failure object, and a write-once store does not change the outcome (programs with a RecurrentSubGraph are excluded: known finding K01)"),
]
NOT_APPLICABLE = [
    {"property_id": "C15", "reason": "pure function of the declarations (builder): no schedule, clock, fault or interleaving to simulate - DESIGN.md section 8"},
    {"property_id": "C16", "reason": "pure function of the declarations (build-time validation): no schedule, clock, fault or interleaving to simulate - DESIGN.md section 8"},
    {"property_id": "C20", "reason": "pure function of a built DAG (viewer projection): no schedule, clock, fault or interleaving to simulate - DESIGN.md section 8"},
]
