"""Minimise a failing case: schedule first, then program, then input.  A candidate is kept only if
the same clause of the same property still fails."""
from __future__ import annotations

import copy
import time

from .reference import reachable


def _still_fails(prop, case, clause):
    try:
        found = prop.evaluate(case, None)
    except Exception:  # noqa: BLE001 - a candidate that breaks the harness is simply not kept
        return None
    for f in found:
        if f['clause'] == clause:
            return f
    return None


def _remove_node(spec, name):
    """delete a node; consumers lose the parameter(s) that referred to it"""
    if name in (spec['input'], spec['output']):
        return None
    s = copy.deepcopy(spec)
    s['nodes'] = [n for n in s['nodes'] if n['name'] != name]
    for n in s['nodes']:
        newp = []
        for kw, m in n.get('params', ()):
            k = m[0]
            if k == 'In':
                if m[1] == name:
                    continue
            elif k == 'Switch':
                if m[2] == name:
                    continue
                m[3] = [c for c in m[3] if c[1] != name]
                if not m[3]:
                    continue
            elif k == 'OneOf':
                m[1] = [c for c in m[1] if c != name]
                if not m[1]:
                    continue
            elif k == 'Rec':
                if m[2] == name:
                    continue
                if m[1] == name:
                    m = ['In', m[2]]
            newp.append([kw, m])
        n['params'] = newp
        rec = n.get('rec')
        if rec and rec['start'] == name:
            n.pop('rec')
    # drop rec attribute when no Rec mark refers to the node any more
    dests = {m[2] for n in s['nodes'] for _, m in n.get('params', ()) if m[0] == 'Rec'}
    for n in s['nodes']:
        if n.get('rec') and n['name'] not in dests:
            n.pop('rec')
    keep = reachable(s)
    s['nodes'] = [n for n in s['nodes'] if n['name'] in keep]
    return s


def _bypass_node(spec, name):
    """delete a node by re-wiring: consumers that read it through a plain Input read its first plain Input instead"""
    if name in (spec['input'], spec['output']):
        return None
    s = copy.deepcopy(spec)
    node = next((n for n in s['nodes'] if n['name'] == name), None)
    if node is None or node.get('rec') or node.get('add_data'):
        return None
    srcs = [m[1] for _, m in node.get('params', ()) if m[0] == 'In']
    if not srcs:
        return None
    src = srcs[0]
    for n in s['nodes']:
        if n is node:
            continue
        used = set()
        for _, m in n.get('params', ()):
            if m[0] == 'In':
                used.add(m[1])
            elif m[0] == 'Switch':
                if m[2] == name or any(c == name for _, c in m[3]):
                    return None
                used.add(m[2])
                used.update(c for _, c in m[3])
            elif m[0] == 'OneOf':
                if name in m[1]:
                    return None
                used.update(m[1])
            elif m[0] == 'Rec':
                if name in (m[1], m[2]):
                    return None
                used.add(m[2])
        for p in n.get('params', ()):
            if p[1][0] == 'In' and p[1][1] == name:
                if src in used:
                    return None
                p[1][1] = src
    s['nodes'] = [n for n in s['nodes'] if n['name'] != name]
    keep = reachable(s)
    s['nodes'] = [n for n in s['nodes'] if n['name'] in keep]
    return s


def _simplify_node_variants(spec, idx):
    n = spec['nodes'][idx]
    out = []

    def variant(**chg):
        s = copy.deepcopy(spec)
        m = s['nodes'][idx]
        for k, v in chg.items():
            if v is None:
                m.pop(k, None)
            else:
                m[k] = v
        return s

    if n.get('gates'):
        out.append(variant(gates=0))
    if n.get('mode') not in (None, 'inline'):
        out.append(variant(mode='inline', gates=0, thread_tag=None))
    if n.get('plan'):
        p = n['plan']
        out.append(variant(plan=None))
        if len(p) > 1:
            out.append(variant(plan=p[:-1]))
            out.append(variant(plan=p[1:]))
        if any('?' in x for x in p):
            out.append(variant(plan=[x.split('?')[0] for x in p]))
    if n.get('retry'):
        out.append(variant(retry=None))
    if n.get('value') not in (None, 'prov') and not isinstance(n.get('value'), dict):
        out.append(variant(value=None))
    return out


def shrink(prop, replay, budget_s=15.0):
    t0 = time.monotonic()
    clause = replay['clause']
    cur = replay
    case = cur['case']

    def timeup():
        return time.monotonic() - t0 > budget_s

    def attempt(cand_case):
        nonlocal cur, case
        scheds = cand_case['scheds']
        for alt in (scheds, [{'fifo': True}] * len(scheds)):
            c = dict(cand_case)
            c['scheds'] = copy.deepcopy(alt)
            f = _still_fails(prop, c, clause)
            if f is not None:
                cur = f
                case = f['case']
                return True
        return False

    # 1. schedule -> fifo
    c = copy.deepcopy(case)
    c['scheds'] = [{'fifo': True}] * len(case['scheds'])
    f = _still_fails(prop, c, clause)
    if f is not None:
        cur, case = f, f['case']
    # 2. collaborators / extras
    for key in ('em', 'store', 'cancel'):
        if timeup():
            break
        if case.get(key):
            c = copy.deepcopy(case)
            c.pop(key)
            attempt(c)
    # 3. program
    progress = True
    while progress and not timeup():
        progress = False
        for name in [n['name'] for n in reversed(case['spec']['nodes'])]:
            if timeup():
                break
            done = False
            for s in (_remove_node(case['spec'], name), _bypass_node(case['spec'], name)):
                if s is None or len(s['nodes']) < 1:
                    continue
                c = copy.deepcopy(case)
                c['spec'] = s
                if attempt(c):
                    done = True
                    break
            if done:
                progress = True
                break
    for idx in range(len(case['spec']['nodes'])):
        if timeup():
            break
        changed = True
        while changed and not timeup():
            changed = False
            if idx >= len(case['spec']['nodes']):
                break
            for s in _simplify_node_variants(case['spec'], idx):
                c = copy.deepcopy(case)
                c['spec'] = s
                if attempt(c):
                    changed = True
                    break
    # 4. input
    if not timeup():
        for r_i, r in enumerate(case['runs']):
            small = {'x': 1}
            if r['input'] != small:
                c = copy.deepcopy(case)
                c['runs'][r_i]['input'] = small
                attempt(c)
    cur['shrunk'] = True
    return cur
