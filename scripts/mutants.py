#!/usr/bin/env python3
"""Sensitivity: apply hand-written single-change mutants of /repo to a scratch copy (outside /repo and
/verif, removed afterwards), check that the existing suite still passes there, run the quick check of the
targeted properties with VERIF_REPO pointing at the copy, and write the kill matrix to
mutants/kill_matrix.json.  usage: scripts/mutants.py [name ...]   env: VERIF_BUDGET_S (default 8)"""
import json
import os
import shutil
import subprocess
import sys
import tempfile

HERE = os.path.dirname(os.path.dirname(os.path.abspath(__file__)))
REPO = os.environ.get('VERIF_REPO', '/repo')
MGR = 'ml_pipeline_engine/dag/manager.py'

MUTANTS = [
    dict(name='M01_default_one_attempt_early', targets=['C12'], file=MGR,
         old="                if n_attempts == retry_policy.attempts:\n",
         new="                if n_attempts >= retry_policy.attempts - (1 if node.use_default else 0):\n"),
    dict(name='M02_first_retry_without_delay', targets=['C12'], file=MGR,
         old="                await asyncio.sleep(retry_policy.delay)\n",
         new="                await asyncio.sleep(retry_policy.delay if n_attempts > 2 else 0)\n"),
    dict(name='M23_retry_backoff', targets=['C12'], file=MGR,
         old="                await asyncio.sleep(retry_policy.delay)\n",
         new="                await asyncio.sleep(retry_policy.delay * (n_attempts - 1))\n"),
    dict(name='M24_stale_switch_selection_across_iterations', targets=['C09', 'C11'], file='ml_pipeline_engine/dag/storage.py',
         old="            self.switch_results.hide(node_id)\n",
         new="            pass\n"),
    dict(name='M03_exception_filter_ignored', targets=['C12'], file=MGR,
         old="            except retry_policy.exceptions as error:  # noqa: PERF203\n",
         new="            except Exception as error:  # noqa: PERF203\n"),
    dict(name='M04_default_without_kwargs', targets=['C12'], file=MGR,
         old="                    if node.use_default:\n                        return run_node_default(node, **kwargs)\n\n                    raise error\n",
         new="                    if node.use_default:\n                        return run_node_default(node)\n\n                    raise error\n"),
    dict(name='M05_processed_mark_after_await', targets=['C04', 'C14'], file=MGR,
         old="        self._node_storage.set_node_as_processed(node_id)\n        await self.ctx.emit_on_node_start(node_id=node_id)\n",
         new="        await self.ctx.emit_on_node_start(node_id=node_id)\n        self._node_storage.set_node_as_processed(node_id)\n"),
    dict(name='M06_readiness_accepts_hidden_results', targets=['C11', 'C03'], file=MGR,
         old="                not self._node_storage.exists_node_result(pred_node_id)\n",
         new="                not self._node_storage.exists_node_result(pred_node_id, with_hidden=True)\n"),
    dict(name='M07_await_each_node_in_launch_loop', targets=['C06'], file=MGR,
         old="            self._create_task(coro_to_run, name=node_id)\n",
         new="            await self._create_task(coro_to_run, name=node_id)\n"),
    dict(name='M08_one_more_recurrent_iteration', targets=['C11'], file=MGR,
         old="        for current_iter in range(max_iterations):\n",
         new="        for current_iter in range(max_iterations + 1):\n"),
    dict(name='M09_no_complete_event_per_failed_attempt', targets=['C14'], file=MGR,
         old="                await self.ctx.emit_on_node_complete(node_id=node_id, error=error)\n\n                n_attempts += 1\n",
         new="                n_attempts += 1\n"),
    dict(name='M10_input_kwargs_not_copied', targets=['C07'], file=MGR,
         old="            kwargs = dict(self.ctx.input_kwargs)\n",
         new="            kwargs = self.ctx.input_kwargs\n"),
    dict(name='M11_every_request_counts_as_first', targets=['C19', 'C03'], file=MGR,
         old="        is_first_request = not self._node_storage.exists_processed_node(node_id)\n",
         new="        is_first_request = True\n"),
    dict(name='M12_no_stop_after_successful_run', targets=['C13'], file=MGR,
         old="        finally:\n            self._stop_coro_tasks(*self._coro_tasks)\n",
         new="        finally:\n            if not self._node_storage.exists_node_result(self.dag.output_node):\n                self._stop_coro_tasks(*self._coro_tasks)\n"),
    dict(name='M13_thread_pool_not_validated', targets=['C17'], file='ml_pipeline_engine/dag/dag.py',
         old="        if self.is_thread_pool_needed:\n            threads_pool_registry.is_ready()\n",
         new="        if self.is_thread_pool_needed and self.is_process_pool_needed:\n            threads_pool_registry.is_ready()\n"),
    dict(name='M14_fs_lookup_by_glob_again', targets=['C18'], file='ml_pipeline_engine/artifact_store/store/filesystem.py',
         old="        return [path for path in paths if path.is_file()]\n",
         new="        return list(directory.glob(f'{node_id}.*'))\n"),
    dict(name='M15_cancellation_turned_into_result', targets=['C13'], file='ml_pipeline_engine/chart.py',
         old="        except Exception as ex:\n            result = PipelineResult(pipeline_id=pipeline_id, value=None, error=ex)\n",
         new="        except BaseException as ex:\n            result = PipelineResult(pipeline_id=pipeline_id, value=None, error=ex)\n"),
    dict(name='M16_unknown_label_takes_first_case', targets=['C09'], file=MGR,
         old="        if selected_branch_label not in branch_nodes:\n            raise SwitchCaseDoesNotExistError(\n                f'The switch {switch_node_id} does not have a case for the label {selected_branch_label!r}',\n            )\n",
         new="        if selected_branch_label not in branch_nodes:\n            selected_branch_label = next(iter(branch_nodes))\n"),
    dict(name='M17_no_duplicate_request_guard', targets=['C04'], file=MGR,
         old="        if self._node_storage.exists_processed_node(node_id):\n            logger.debug('Node %s has been executed. Stop new execution', node_id)\n",
         new="        if False:\n            logger.debug('Node %s has been executed. Stop new execution', node_id)\n"),
    dict(name='M18_additional_data_on_shared_graph', targets=['C08', 'C07'], file=MGR,
         old="            self._additional_data[start_from_node_id] = node_result.data\n",
         new="            self._additional_data[start_from_node_id] = node_result.data\n            self.dag.__dict__.setdefault('_last_data', {})[start_from_node_id] = node_result.data\n",
         old2="        additional_data = self._additional_data.get(node_id)\n",
         new2="        additional_data = self._additional_data.get(node_id, self.dag.__dict__.get('_last_data', {}).get(node_id))\n"),
    dict(name='M19_oneof_none_is_no_result', targets=['C10', 'C02'], file=MGR,
         old="                        self._node_storage.exists_node_result(subgraph_node_id)  # noqa: B023\n",
         new="                        self._node_storage.exists_result_type(subgraph_node_id)  # noqa: B023\n"),
    dict(name='M20_pipeline_complete_gets_a_copy', targets=['C14'], file='ml_pipeline_engine/chart.py',
         old="            await ctx.emit_on_pipeline_complete(result=result)\n            return result\n\n        except Exception as ex:",
         new="            await ctx.emit_on_pipeline_complete(result=PipelineResult(value=result.value, pipeline_id=pipeline_id, error=None))\n            return result\n\n        except Exception as ex:"),
    dict(name='M21_contained_failure_not_reraised_outside_oneof', targets=['C03', 'C05'], file=MGR,
         old="            if not dag.is_oneof and not self._is_head_of_oneof(node_id):\n",
         new="            if not dag.is_oneof and not self._is_head_of_oneof(node_id) and dag.is_recurrent:\n"),
    dict(name='M22_early_exit_does_not_wake_oneof', targets=['C02', 'C10'], file=MGR,
         old="                await self.__unlock_itself(dag.dest)\n                return subgraph_error\n",
         new="                return subgraph_error\n"),
]


def apply(root, m):
    for old_k, new_k in (('old', 'new'), ('old2', 'new2')):
        if old_k not in m:
            continue
        p = os.path.join(root, m['file'])
        s = open(p).read()
        if m[old_k] not in s:
            return False
        open(p, 'w').write(s.replace(m[old_k], m[new_k], 1))
    return True


def main():
    want = set(sys.argv[1:])
    budget = os.environ.get('VERIF_BUDGET_S', '8')
    out_path = os.path.join(HERE, 'mutants', 'kill_matrix.json')
    results = {}
    if os.path.exists(out_path) and want:
        results = json.load(open(out_path)).get('mutants', {})
    for m in MUTANTS:
        if want and m['name'] not in want:
            continue
        tmp = tempfile.mkdtemp(prefix='verif_mut_')
        try:
            root = os.path.join(tmp, 'repo')
            shutil.copytree(REPO, root, ignore=shutil.ignore_patterns('.git', '__pycache__', '.pytest_cache'))
            if not apply(root, m):
                results[m['name']] = {'status': 'does_not_apply', 'targets': m['targets']}
                print(m['name'], 'DOES NOT APPLY')
                continue
            r = subprocess.run(['/venv/bin/python', '-m', 'pytest', '-q', '-p', 'no:cacheprovider', '--timeout=120', '-x',
                                '--deselect', 'tests/visualization'], cwd=root, capture_output=True, text=True,
                               timeout=900)
            tail = r.stdout.strip().splitlines()[-1] if r.stdout.strip() else ''
            passes = ' 62 passed' in tail and 'failed' not in tail.replace('2 failed', '')
            res = {'targets': m['targets'], 'existing_suite': tail, 'passes_existing_suite': passes, 'checks': {}}
            for pid in m['targets']:
                env = dict(os.environ, VERIF_REPO=root, VERIF_BUDGET_S=budget, VERIF_NO_EVIDENCE='1', VERIF_REPLAY_DIR=os.path.join(tmp, 'replays'))
                c = subprocess.run([os.path.join(HERE, 'scripts', 'check'), pid, '--tier', 'quick'], cwd=HERE, env=env,
                                   capture_output=True, text=True, timeout=1200)
                clauses = sorted({ln.split('clause=')[1].split(' ')[0] for ln in c.stdout.splitlines() if 'clause=' in ln})
                res['checks'][pid] = {'exit': c.returncode, 'killed': c.returncode == 1, 'clauses': clauses}
            res['killed'] = any(v['killed'] for v in res['checks'].values())
            res['status'] = ('killed' if res['killed'] else 'SURVIVED') if passes else \
                ('killed (also fails the existing suite)' if res['killed'] else 'fails existing suite, survived checks')
            results[m['name']] = res
            print(m['name'], res['status'], {k: v['clauses'] for k, v in res['checks'].items()}, '| suite:', tail)
        finally:
            shutil.rmtree(tmp, ignore_errors=True)
    # restore evidence files written against mutated trees? they are rewritten by the next real run; re-run is the
    # caller's job (scripts/mutants.py is never a registered command)
    os.makedirs(os.path.dirname(out_path), exist_ok=True)
    json.dump({'repo_head': subprocess.run(['git', '-C', REPO, 'rev-parse', '--short', 'HEAD'], capture_output=True,
                                           text=True).stdout.strip(),
               'budget_s_per_check': budget, 'mutants': results}, open(out_path, 'w'), indent=1)


if __name__ == '__main__':
    main()
