#!/usr/bin/env python3
"""Regenerate MANIFEST.json from the property table below (single source of truth)."""
import json, os, sys
here = os.path.dirname(os.path.dirname(os.path.abspath(__file__)))
sys.path.insert(0, here)
from verifsim.manifest_table import CHECKS, NOT_APPLICABLE, HOOK_COMMITS  # noqa: E402

BASE = "cd /repo && /venv/bin/python -m pytest -ra -q -p no:cacheprovider --timeout=900 --continue-on-collection-errors"
m = {
    "version": 1,
    "setup_cmd": "cd /verif && scripts/setup",
    "hooks": {
        "guard": "ML_PIPELINE_ENGINE_VERIF",
        "enable": "no source hooks exist: every seam the simulator needs is already in the code (DAG.run_manager "
                  "factory field, public pool registries, loop methods, module attribute uuid.uuid4); the guard name "
                  "is reserved and unused, so hooks-on and hooks-off builds are identical",
        "baseline_off_cmd": BASE,
        "source_commits": HOOK_COMMITS,
        "add_only": True,
    },
    "engines": [{
        "name": "verifsim", "path": "verifsim/",
        "serves_properties": [c["property_id"] for c in CHECKS],
        "kind_free_text": "deterministic simulation with fault injection: custom asyncio event loop (virtual clock, "
                          "scheduler-owned completions), seeded program/fault/schedule generator, independent "
                          "reference interpreter, trace oracles, shrinking, replay files",
    }],
    "checks": [],
    "notes": "All checks: scripts/check <id> [--tier quick|thorough] [--replay file]; env VERIF_SEED, VERIF_TIER, "
             "VERIF_REPO, VERIF_BUDGET_S. exit 0 held / 1 VIOLATION / 2 harness error. Known findings: "
             "known_findings.json (+ witnesses under known_findings/).",
    "not_applicable": NOT_APPLICABLE,
}
for c in CHECKS:
    pid = c["property_id"]
    m["checks"].append({
        "property_id": pid,
        "quick_cmd": f"scripts/check {pid} --tier quick",
        "thorough_cmd": f"scripts/check {pid} --tier thorough",
        "evidence_file": f"evidence/{pid}.json",
        "replay_cmd_template": f"scripts/check {pid} --replay {{path}}",
        "engine": "verifsim",
        "level_claimed": {"category": c["level"], "text": c["text"], "design_ref": c.get("design_ref", "DESIGN.md section 6")},
        "level_note": c["note"],
        "technique": c["technique"],
    })
json.dump(m, open(os.path.join(here, "MANIFEST.json"), "w"), indent=1)
print("wrote MANIFEST.json with", len(m["checks"]), "checks")
