#!/usr/bin/env python3
"""Re-run every seeded change (seeded/<id>/patch.diff) against the quick check of the property it breaks, in a scratch
git worktree of /repo (outside /repo and /verif, removed afterwards), and write seeded/matrix.json.
Never a registered command.  usage: scripts/seeds.py [id ...]   env VERIF_BUDGET_S (default 12)"""
import json
import os
import subprocess
import sys
import tempfile

HERE = os.path.dirname(os.path.dirname(os.path.abspath(__file__)))
REPO = '/repo'


def sh(*cmd, **kw):
    return subprocess.run(cmd, capture_output=True, text=True, **kw)


def main():
    want = set(sys.argv[1:])
    budget = os.environ.get('VERIF_BUDGET_S', '12')
    out_path = os.path.join(HERE, 'seeded', 'matrix.json')
    results = json.load(open(out_path)).get('seeds', {}) if os.path.exists(out_path) and want else {}
    tmp = tempfile.mkdtemp(prefix='verif_seed_')
    wt = os.path.join(tmp, 'wt')
    try:
        r = sh('git', '-C', REPO, 'worktree', 'add', '--detach', wt, 'HEAD')
        if r.returncode:
            print(r.stderr)
            return 2
        for sid in sorted(os.listdir(os.path.join(HERE, 'seeded'))):
            d = os.path.join(HERE, 'seeded', sid)
            if not os.path.isdir(d) or (want and sid not in want):
                continue
            meta = json.load(open(os.path.join(d, 'meta.json')))
            pid = meta['breaks_property']
            sh('git', '-C', wt, 'checkout', '--', '.')
            a = sh('git', '-C', wt, 'apply', os.path.join(d, 'patch.diff'))
            if a.returncode:
                results[sid] = {'property': pid, 'status': 'does not apply to the current HEAD (base %s)' % meta.get('base_commit')}
                print(sid, results[sid]['status'])
                continue
            props = [pid] + [c.split(' ')[0] for c in meta.get('caught_by', []) if c.split(' ')[0] != pid
                             and c.startswith('C') and c[1:3].isdigit()][:2]
            res = {'property': pid, 'checks': {}}
            for p in props:
                env = dict(os.environ, VERIF_REPO=wt, VERIF_NO_EVIDENCE='1', VERIF_BUDGET_S=budget,
                           VERIF_REPLAY_DIR=os.path.join(tmp, 'replays'))
                c = sh(os.path.join(HERE, 'scripts', 'check'), p, '--tier', 'quick', cwd=HERE, env=env)
                clauses = sorted({ln.split('clause=')[1].split(' ')[0] for ln in c.stdout.splitlines() if 'clause=' in ln})
                res['checks'][p] = {'exit': c.returncode, 'caught': c.returncode == 1, 'clauses': clauses[:4]}
                if c.returncode == 1 and p == pid:
                    break
            res['caught'] = any(v['caught'] for v in res['checks'].values())
            res['caught_by_own_property'] = res['checks'].get(pid, {}).get('caught', False)
            res['status'] = 'caught' if res['caught'] else 'MISSED'
            results[sid] = res
            print(sid, res['status'], {k: v['clauses'] for k, v in res['checks'].items()})
    finally:
        sh('git', '-C', REPO, 'worktree', 'remove', '--force', wt)
        sh('git', '-C', REPO, 'worktree', 'prune')
        subprocess.run(['rm', '-rf', tmp])
    head = sh('git', '-C', REPO, 'rev-parse', '--short', 'HEAD').stdout.strip()
    json.dump({'repo_head': head, 'budget_s_per_check': budget, 'seeds': results}, open(out_path, 'w'), indent=1)
    missed = [k for k, v in results.items() if v.get('status') == 'MISSED']
    print(f'{len(results)} seeds, missed: {missed}')
    return 0


if __name__ == '__main__':
    sys.exit(main())
