#!/usr/bin/env python3
"""Systematic sensitivity sweep: AST-level mutants of the engine's run-time modules.

For every mutant (one change each): (1) the existing suite is run on a scratch copy; mutants that fail it are
dropped (the tests already guard them); (2) the survivors are run against the quick checks (short budget) with
VERIF_REPO pointing at the copy.  Result: mutants/auto_matrix.json - survivors of BOTH are the blind spots to look at
(or equivalent mutants).  Never a registered command.

usage: scripts/automutants.py [--limit N] [--budget S] [--files a.py,b.py]"""
import argparse
import ast
import copy
import json
import os
import shutil
import subprocess
import sys
import tempfile

HERE = os.path.dirname(os.path.dirname(os.path.abspath(__file__)))
REPO = os.environ.get('VERIF_REPO', '/repo')
FILES = [
    'ml_pipeline_engine/dag/manager.py',
    'ml_pipeline_engine/dag/storage.py',
    'ml_pipeline_engine/dag/dag.py',
    'ml_pipeline_engine/dag/graph.py',
    'ml_pipeline_engine/chart.py',
    'ml_pipeline_engine/node/node.py',
    'ml_pipeline_engine/node/retrying.py',
    'ml_pipeline_engine/context/dag.py',
    'ml_pipeline_engine/events.py',
]
CHECKS = ['C02', 'C03', 'C05', 'C10', 'C11', 'C12', 'C13', 'C14', 'C07', 'C08', 'C19', 'C17', 'C06']


class Site:
    def __init__(self, kind, lineno, desc):
        self.kind, self.lineno, self.desc = kind, lineno, desc


def enumerate_mutants(src):
    """yield (description, mutated source)"""
    tree = ast.parse(src)
    sites = []

    class V(ast.NodeVisitor):
        def generic_visit(self, node):
            for field, value in ast.iter_fields(node):
                if isinstance(value, list):
                    for i, item in enumerate(value):
                        if isinstance(item, ast.Expr) and isinstance(item.value, ast.Await) and len(value) > 1:
                            sites.append(('del_await_stmt', node, field, i))
                        if isinstance(item, ast.Expr) and isinstance(item.value, ast.Call) and len(value) > 1 \
                                and not (isinstance(item.value.func, ast.Attribute)
                                         and item.value.func.attr in ('debug', 'info', 'error', 'warning')):
                            sites.append(('del_call_stmt', node, field, i))
                        if isinstance(item, ast.AST):
                            self.visit(item)
                elif isinstance(value, ast.AST):
                    self.visit(value)
            if isinstance(node, ast.If):
                sites.append(('negate_if', node))
            if isinstance(node, ast.BoolOp):
                sites.append(('swap_boolop', node))
            if isinstance(node, ast.Compare) and len(node.ops) == 1:
                sites.append(('flip_compare', node))
            if isinstance(node, ast.UnaryOp) and isinstance(node.op, ast.Not):
                sites.append(('drop_not', node))
            if isinstance(node, ast.Constant) and isinstance(node.value, bool):
                sites.append(('flip_bool', node))
            if isinstance(node, ast.Return) and node.value is not None and not isinstance(node.value, ast.Constant):
                sites.append(('return_none', node))

    V().visit(tree)
    for n, site in enumerate(sites):
        t = copy.deepcopy(tree)
        # locate the same site in the copy by re-walking in the same order
        found = []

        class W(ast.NodeVisitor):
            def generic_visit(self, node):
                for field, value in ast.iter_fields(node):
                    if isinstance(value, list):
                        for i, item in enumerate(value):
                            if isinstance(item, ast.Expr) and isinstance(item.value, ast.Await) and len(value) > 1:
                                found.append(('del_await_stmt', node, field, i))
                            if isinstance(item, ast.Expr) and isinstance(item.value, ast.Call) and len(value) > 1 \
                                    and not (isinstance(item.value.func, ast.Attribute)
                                             and item.value.func.attr in ('debug', 'info', 'error', 'warning')):
                                found.append(('del_call_stmt', node, field, i))
                            if isinstance(item, ast.AST):
                                self.visit(item)
                    elif isinstance(value, ast.AST):
                        self.visit(value)
                if isinstance(node, ast.If):
                    found.append(('negate_if', node))
                if isinstance(node, ast.BoolOp):
                    found.append(('swap_boolop', node))
                if isinstance(node, ast.Compare) and len(node.ops) == 1:
                    found.append(('flip_compare', node))
                if isinstance(node, ast.UnaryOp) and isinstance(node.op, ast.Not):
                    found.append(('drop_not', node))
                if isinstance(node, ast.Constant) and isinstance(node.value, bool):
                    found.append(('flip_bool', node))
                if isinstance(node, ast.Return) and node.value is not None and not isinstance(node.value, ast.Constant):
                    found.append(('return_none', node))

        W().visit(t)
        s = found[n]
        kind = s[0]
        line = getattr(s[1], 'lineno', None)
        if kind in ('del_await_stmt', 'del_call_stmt'):
            _, parent, field, i = s
            stmt = getattr(parent, field)[i]
            line = stmt.lineno
            desc = f'{kind} L{line}: {ast.unparse(stmt)[:90]}'
            getattr(parent, field)[i] = ast.Pass()
        elif kind == 'negate_if':
            node = s[1]
            desc = f'negate_if L{line}: {ast.unparse(node.test)[:90]}'
            node.test = ast.UnaryOp(op=ast.Not(), operand=node.test)
        elif kind == 'swap_boolop':
            node = s[1]
            desc = f'swap_boolop L{line}: {ast.unparse(node)[:90]}'
            node.op = ast.Or() if isinstance(node.op, ast.And) else ast.And()
        elif kind == 'flip_compare':
            node = s[1]
            op = node.ops[0]
            m = {ast.Eq: ast.NotEq, ast.NotEq: ast.Eq, ast.Lt: ast.LtE, ast.LtE: ast.Lt, ast.Gt: ast.GtE, ast.GtE: ast.Gt,
                 ast.Is: ast.IsNot, ast.IsNot: ast.Is, ast.In: ast.NotIn, ast.NotIn: ast.In}
            if type(op) not in m:
                continue
            desc = f'flip_compare L{line}: {ast.unparse(node)[:90]}'
            node.ops = [m[type(op)]()]
        elif kind == 'drop_not':
            node = s[1]
            desc = f'drop_not L{line}: {ast.unparse(node)[:90]}'
            node.op = ast.UAdd()
            # "+x" on a bool keeps truthiness of non-bool objects out; simpler: replace by bool(x)
            new = ast.Call(func=ast.Name(id='bool', ctx=ast.Load()), args=[node.operand], keywords=[])
            for parent in ast.walk(t):
                for field, value in ast.iter_fields(parent):
                    if value is node:
                        setattr(parent, field, new)
                    elif isinstance(value, list):
                        for i, item in enumerate(value):
                            if item is node:
                                value[i] = new
        elif kind == 'flip_bool':
            node = s[1]
            desc = f'flip_bool L{line}: {node.value}'
            node.value = not node.value
        elif kind == 'return_none':
            node = s[1]
            desc = f'return_none L{line}: return {ast.unparse(node.value)[:80]}'
            node.value = ast.Constant(value=None)
        else:
            continue
        ast.fix_missing_locations(t)
        try:
            yield desc, ast.unparse(t)
        except Exception:  # noqa: BLE001
            continue


def main():
    ap = argparse.ArgumentParser()
    ap.add_argument('--limit', type=int, default=10 ** 6)
    ap.add_argument('--budget', default='4')
    ap.add_argument('--files', default=','.join(FILES))
    ap.add_argument('--out', default=os.path.join(HERE, 'mutants', 'auto_matrix.json'))
    ap.add_argument('--skip', type=int, default=0)
    args = ap.parse_args()
    results = []
    if os.path.exists(args.out):
        results = json.load(open(args.out)).get('mutants', [])
    done = {(r['file'], r['desc']) for r in results}
    n = 0
    for rel in args.files.split(','):
        src = open(os.path.join(REPO, rel)).read()
        for desc, msrc in enumerate_mutants(src):
            n += 1
            if n <= args.skip or (rel, desc) in done:
                continue
            if n > args.limit:
                break
            tmp = tempfile.mkdtemp(prefix='verif_amut_')
            try:
                root = os.path.join(tmp, 'repo')
                shutil.copytree(REPO, root, ignore=shutil.ignore_patterns('.git', '__pycache__', '.pytest_cache'))
                open(os.path.join(root, rel), 'w').write(msrc)
                try:
                    r = subprocess.run(['/venv/bin/python', '-m', 'pytest', '-q', '-p', 'no:cacheprovider', '--timeout=60',
                                        '-x', '--deselect', 'tests/visualization'], cwd=root, capture_output=True,
                                       text=True, timeout=600)
                    tail = r.stdout.strip().splitlines()[-1] if r.stdout.strip() else ''
                except subprocess.TimeoutExpired:
                    tail = 'timeout'
                passes = ' 62 passed' in tail and ' failed' not in tail
                rec = {'file': rel, 'desc': desc, 'suite': tail[:80], 'passes_suite': passes, 'killed_by': [], 'clauses': {}}
                if passes:
                    for pid in CHECKS:
                        env = dict(os.environ, VERIF_REPO=root, VERIF_BUDGET_S=args.budget, VERIF_NO_EVIDENCE='1', VERIF_REPLAY_DIR=os.path.join(tmp, 'replays'))
                        try:
                            c = subprocess.run([os.path.join(HERE, 'scripts', 'check'), pid, '--tier', 'quick'], cwd=HERE,
                                               env=env, capture_output=True, text=True, timeout=900)
                        except subprocess.TimeoutExpired:
                            rec['clauses'][pid] = ['check timeout']
                            continue
                        if c.returncode == 1:
                            rec['killed_by'].append(pid)
                            rec['clauses'][pid] = sorted({ln.split('clause=')[1].split(' ')[0]
                                                          for ln in c.stdout.splitlines() if 'clause=' in ln})[:4]
                            break     # one killer is enough
                        if c.returncode == 2:
                            rec['clauses'][pid] = ['harness error']
                rec['status'] = 'fails_suite' if not passes else ('killed' if rec['killed_by'] else 'SURVIVED')
                results.append(rec)
                print(f'[{n}] {rel.split("/")[-1]} {desc} -> {rec["status"]} {rec["killed_by"]}', flush=True)
            finally:
                shutil.rmtree(tmp, ignore_errors=True)
                os.makedirs(os.path.dirname(args.out), exist_ok=True)
            json.dump({'budget_s_per_check': args.budget, 'checks_in_order': CHECKS, 'mutants': results},
                      open(args.out, 'w'), indent=1)
    tot = len(results)
    fs = sum(1 for r in results if r['status'] == 'fails_suite')
    kd = sum(1 for r in results if r['status'] == 'killed')
    sv = [r for r in results if r['status'] == 'SURVIVED']
    print(f'{tot} mutants: {fs} fail the existing suite, {kd} killed by the checks, {len(sv)} survived both')


if __name__ == '__main__':
    sys.exit(main())
