#!/usr/bin/env python3
"""Validation (i) of the reference interpreter (DESIGN section 5): DAGs of the repository's own test-suite,
transcribed into program specs, must evaluate to what the tests assert (verdict, call counts, call order where the
test pins it).  Independent of the engine: only the reference runs here.  exit 0 / 1."""
import os
import sys
from collections import Counter

HERE = os.path.dirname(os.path.dirname(os.path.abspath(__file__)))
sys.path.insert(0, HERE)
sys.path.insert(0, os.environ.get('VERIF_REPO', '/repo'))
from verifsim.reference import Reference  # noqa: E402


def N(name, params=(), **kw):
    d = {'name': name, 'params': [list(p) for p in params], 'mode': 'inline', 'gates': 0}
    d.update(kw)
    return d


def In(n):
    return ['In', n]


ALWAYS = 99   # "always asks for another iteration"
CASES = []


def case(name, spec, expect):
    CASES.append((name, spec, expect))


# tests/dag/test_dag_rhombus.py
case('rhombus', {'input': 'inv', 'output': 'add', 'nodes': [
    N('inv'), N('addc', [('num', In('inv'))]), N('dbl', [('num', In('inv'))]),
    N('add', [('num1', In('addc')), ('num2', In('dbl'))])]},
    {'ok': True, 'counts': {'inv': 1, 'addc': 1, 'dbl': 1, 'add': 1}})

# tests/dag/oneof/test_input_one_of_last_success_dag.py (two failing data sources, the third one works)
case('oneof_last_success', {'input': 'start', 'output': 'out', 'nodes': [
    N('start'), N('err1', [('_', In('start'))], plan=['E1']), N('err2', [('_', In('start'))], plan=['E1']),
    N('ok3', [('_', In('start'))]),
    N('out', [('v', ['OneOf', ['err1', 'err2', 'ok3']])])]},
    {'ok': True, 'order': ['start', 'err1', 'err2', 'ok3', 'out']})

# tests/dag/oneof/test_oneof_all_errors.py
case('oneof_all_errors', {'input': 'start', 'output': 'out', 'nodes': [
    N('start'), N('e1', [('_', In('start'))], plan=['E1']), N('e2', [('_', In('start'))], plan=['E1']),
    N('out', [('v', ['OneOf', ['e1', 'e2']])])]},
    {'ok': False, 'cause_kind': 'oneof', 'counts': {'out': 0}})

# tests/dag/oneof/test_oneof_with_second_level_nested_oneof_cancel_oneof_branch.py
case('nested_oneof_all_inner_fail', {'input': 'start', 'output': 'finish', 'nodes': [
    N('start'), N('ds1', [('_', In('start'))], plan=['E1']), N('ds2', [('_', In('start'))], plan=['E1']),
    N('feat2', [('ds', ['OneOf', ['ds1', 'ds2']]), ('inp', In('start'))]),
    N('interm', [('inp', In('feat2'))]), N('fallback', [('_', In('start'))]),
    N('summary', [('fv', ['OneOf', ['interm', 'fallback']])]), N('finish', [('s', In('summary'))])]},
    {'ok': True, 'order': ['start', 'ds1', 'ds2', 'fallback', 'summary', 'finish'],
     'counts': {'feat2': 0, 'interm': 0}})

# tests/dag/switch_case/test_dag_switch_case.py (one label)
case('switch_one_label', {'input': 'ident', 'output': 'out', 'nodes': [
    N('ident'), N('sw', [('num', In('ident'))], value={'labels': ['double']}),
    N('const'), N('double', [('num', In('ident'))]), N('invert', [('num', In('ident'))]),
    N('case', [('num', ['Switch', 's', 'sw', [['const', 'const'], ['double', 'double'], ['invert', 'invert']]]),
               ('num2', In('ident'))]),
    N('out', [('num', In('case'))])]},
    {'ok': True, 'counts': {'double': 1, 'const': 0, 'invert': 0, 'case': 1}})

# tests/dag/recurrent_subgraph/test_simple_subgraph.py-like: one more iteration, then a value
case('rec_once', {'input': 'inv', 'output': 'out', 'nodes': [
    N('inv', add_data=True), N('dbl', [('num', In('inv'))], rec={'start': 'inv', 'k': 1}),
    N('out', [('num', ['Rec', 'inv', 'dbl', 3])])]},
    {'ok': True, 'counts': {'inv': 2, 'dbl': 2, 'out': 1}})

# tests/dag/recurrent_subgraph/test_subgraph_default.py: always Recurrent, max_iterations=3, use_default
case('rec_default', {'input': 'inv', 'output': 'out', 'nodes': [
    N('inv', add_data=True),
    N('dbl', [('num', In('inv'))], rec={'start': 'inv', 'k': ALWAYS}, retry={'use_default': True}),
    N('out', [('num', ['Rec', 'inv', 'dbl', 3])])]},
    {'ok': True, 'counts': {'inv': 4, 'dbl': 4, 'out': 1}, 'defaults': {'dbl': 1}})

# same without default -> RecurrentSubgraphDoesNotHaveResultError
case('rec_exhausted_error', {'input': 'inv', 'output': 'out', 'nodes': [
    N('inv', add_data=True), N('dbl', [('num', In('inv'))], rec={'start': 'inv', 'k': ALWAYS}),
    N('out', [('num', ['Rec', 'inv', 'dbl', 2])])]},
    {'ok': False, 'cause_kind': 'rec', 'counts': {'dbl': 3, 'out': 0}})

# tests/dag/recurrent_subgraph/test_nested_subgraph.py: inner subgraph exhausted (1 + 2 executions) in every one of
# the 3 executions of the outer one: 9 inner / 3 outer destination calls
case('rec_nested', {'input': 'inv', 'output': 'addnum', 'nodes': [
    N('inv', add_data=True), N('diff', add_data=True),
    N('pseudo', [('num', In('diff'))], rec={'start': 'diff', 'k': ALWAYS}, retry={'use_default': True}),
    N('addzero', [('num', In('inv')), ('num2', ['Rec', 'diff', 'pseudo', 2])]),
    N('double', [('num', In('addzero'))], rec={'start': 'inv', 'k': ALWAYS}, retry={'use_default': True}),
    N('addconst'),
    N('addnum', [('num1', In('addconst')), ('num2', ['Rec', 'inv', 'double', 2])])]},
    {'ok': True, 'counts': {'double': 3, 'pseudo': 9, 'addconst': 1, 'addnum': 1}})

# tests/dag/retry: attempts=3, fails twice then succeeds / fails always
case('retry_success_on_third', {'input': 'a', 'output': 'b', 'nodes': [
    N('a'), N('b', [('x', In('a'))], plan=['E1', 'E1', 'ok'], retry={'attempts': 3})]},
    {'ok': True, 'counts': {'b': 3}})
case('retry_exhausted', {'input': 'a', 'output': 'b', 'nodes': [
    N('a'), N('b', [('x', In('a'))], plan=['E1', 'E1', 'E1', 'E1'], retry={'attempts': 3})]},
    {'ok': False, 'counts': {'b': 3}})
case('retry_base_exception_not_retried', {'input': 'a', 'output': 'b', 'nodes': [
    N('a'), N('b', [('x', In('a'))], plan=['B', 'ok'], retry={'attempts': 3, 'use_default': True})]},
    {'ok': False, 'counts': {'b': 1}, 'defaults': {}})


def main():
    bad = 0
    for name, spec, exp in CASES:
        ref = Reference(spec, {'num': 3})
        out = ref.evaluate()
        counts = Counter(c[0] for c in ref.calls)
        errs = []
        if out.ok != exp['ok']:
            errs.append(f'verdict {out!r}, expected ok={exp["ok"]}')
        for n, c in exp.get('counts', {}).items():
            if counts.get(n, 0) != c:
                errs.append(f'{n} invoked {counts.get(n, 0)} times, the test pins {c}')
        if 'order' in exp:
            order = [c[0] for c in ref.calls]
            if order != exp['order']:
                errs.append(f'call order {order}, the test pins {exp["order"]}')
        if 'cause_kind' in exp and not any(c[0] == exp['cause_kind'] for c in out.causes):
            errs.append(f'causes {sorted(out.causes, key=repr)}, expected kind {exp["cause_kind"]}')
        if 'defaults' in exp:
            d = Counter(n for n, _ in ref.defaults)
            if dict(d) != exp['defaults']:
                errs.append(f'defaults {dict(d)}, expected {exp["defaults"]}')
        print(('ok   ' if not errs else 'FAIL ') + name + ('' if not errs else ': ' + '; '.join(errs)))
        bad += bool(errs)
    print(f'{len(CASES)} transcribed test DAGs, {bad} disagreements with what the tests assert')
    return 1 if bad else 0


if __name__ == '__main__':
    sys.exit(main())
